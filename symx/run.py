"""Check driver: explores every group of a property's harness on 16 processes, replays
counterexamples and path witnesses on the unpatched code in a fresh process, matches known
findings, writes evidence, sets the exit code."""
import argparse
import fnmatch
import hashlib
import importlib
import json
import multiprocessing as mp
import os
import queue
import subprocess
import sys
import time
import traceback

ROOT = os.path.dirname(os.path.dirname(os.path.abspath(__file__)))
EXIT_OK, EXIT_VIOLATION, EXIT_HARNESS = 0, 1, 3


def load_harness(pid):
    sys.path.insert(0, ROOT) if ROOT not in sys.path else None
    return importlib.import_module(f'harness.{pid.lower()}')


# ----------------------------------------------------------------------------- worker
def _worker(pid, tier, task_q, res_q, chunk, qtimeout):
    try:
        from symx import core, isolation
        H = load_harness(pid)
        groups = H.groups(tier)
        engines = {}
        profiled = set()
        while True:
            item = task_q.get()
            if item is None:
                break
            gname, prefix = item
            fn, params = groups[gname]
            E = engines.get(gname)
            if E is None:
                E = engines[gname] = core.Engine(qtimeout_ms=params.get('qtimeout_ms', qtimeout))
                E.reset_hooks.append(isolation.restore)
            out = dict(group=gname, paths=0, done=0, aborted=0, exceptions=0, decisions=0,
                       counts={}, cex=[], witnesses=[], pending=[], stub_calls={}, unexplored=0,
                       functions=[], twin=None, samples=[])
            work = [prefix]
            q0, s0 = E.stats['queries'], E.stats['solver_s']
            first = True
            t_start = time.time()
            t_end = t_start + params.get('task_budget_s', 120)
            while work:
                # hand the remaining prefixes back after `chunk` paths, or after 2 s so that slow paths
                # spread over all workers
                if out['paths'] >= chunk or time.time() > t_end or (out['paths'] and time.time() - t_start > 2.0):
                    break
                p = work.pop()
                prof = None
                if gname not in profiled and not p:
                    profiled.add(gname)
                    prof = _Profiler()
                    prof.start()
                try:
                    rec = E.run_path(fn, p)
                finally:
                    if prof:
                        prof.stop()
                        out['functions'] = sorted(prof.seen)
                out['paths'] += 1
                out['decisions'] += len(rec['decisions'])
                out['unexplored'] += rec['unexplored']
                if rec['status'] == 'abort':
                    out['aborted'] += 1
                    out.setdefault('abort_reasons', {})
                    out['abort_reasons'][rec['why']] = out['abort_reasons'].get(rec['why'], 0) + 1
                elif rec['status'] == 'exception':
                    out['exceptions'] += 1
                else:
                    out['done'] += 1
                for k, v in rec['stub_calls'].items():
                    out['stub_calls'][k] = out['stub_calls'].get(k, 0) + v
                for ob in rec['obligations']:
                    key = ob['label'] + ('|' + ob['sig'] if ob.get('sig') else '')
                    c = out['counts'].setdefault(key, dict(ok=0, trivial=0, cex=0, unknown=0))
                    if ob['status'] == 'ok':
                        c['ok'] += 1
                        if ob.get('trivial'):
                            c['trivial'] += 1
                    elif ob['status'] == 'cex':
                        c['cex'] += 1
                        if sum(1 for x in out['cex'] if x['key'] == key) < 2 and ob.get('model'):
                            out['cex'].append(dict(key=key, label=ob['label'], sig=ob.get('sig'),
                                                   model=ob['model'], info=ob.get('info'),
                                                   decisions=rec['decisions']))
                    else:
                        c['unknown'] += 1
                if first and rec['status'] == 'done':
                    first = False
                    if E.model is not None:
                        out['twin'] = True          # a model of the path condition is at hand
                    else:
                        r, _ = E._check()
                        out['twin'] = (r == 'sat')  # `assert False` at the end would be violated
                    w = None
                    if not prefix or hash(tuple(prefix)) % 6 == 0:      # a sample of tasks contributes a path witness
                        try:
                            w = E.witness()
                        except Exception:
                            w = None
                    if w is not None:
                        # obligations proved on this path: only these must also hold concretely in the replay
                        w['proved'] = [[o['label'], o.get('sig')] for o in rec['obligations'] if o['status'] in ('ok', 'trivial')]
                        out['witnesses'].append(w)
                    if len(out['samples']) < 1:
                        out['samples'].append(dict(
                            group=gname, choices=rec['choices'], decisions=len(rec['decisions']),
                            obligations=[(o['label'], o['status']) for o in rec['obligations']][:12],
                            path_condition=[str(c)[:120] for c in E.pc[:6]]))
                work.extend(rec['pending'])
            out['pending'] = work
            out['queries'] = E.stats['queries'] - q0
            out['solver_s'] = E.stats['solver_s'] - s0
            res_q.put(out)
    except BaseException:
        res_q.put(dict(fatal=traceback.format_exc()))


_REPO = os.path.join(os.path.realpath(os.environ.get('VERIF_REPO', '/repo')), '')


class _Profiler:
    def __init__(self):
        self.seen = set()

    def _cb(self, frame, event, arg):
        if event == 'call':
            co = frame.f_code
            fn = co.co_filename
            if fn.startswith(_REPO):
                self.seen.add(f'{fn[len(_REPO):]}:{co.co_qualname}')

    def start(self):
        sys.setprofile(self._cb)

    def stop(self):
        sys.setprofile(None)


# ----------------------------------------------------------------------------- master
def explore(pid, tier, jobs, only_group=None, verbose=False):
    H = load_harness(pid)
    H.setup('sym')
    from symx import isolation
    isolation.resnap()
    groups = H.groups(tier)
    if only_group:
        groups = {k: v for k, v in groups.items() if fnmatch.fnmatch(k, only_group)}
    ctx = mp.get_context('fork')
    task_q, res_q = ctx.Queue(), ctx.Queue()
    chunk = 40 if tier == 'quick' else 60
    procs = [ctx.Process(target=_worker, args=(pid, tier, task_q, res_q, chunk, 10000), daemon=True)
             for _ in range(jobs)]
    for p in procs:
        p.start()
    agg = {g: dict(paths=0, done=0, aborted=0, exceptions=0, decisions=0, counts={}, cex=[],
                   witnesses=[], stub_calls={}, unexplored=0, functions=[], twin=None, samples=[],
                   queries=0, solver_s=0.0, cut=0, abort_reasons={}) for g in groups}
    # tasks wait in a master-side backlog; only a bounded number is in flight, so that the budget can stop
    # the exploration (an mp.Queue buffers puts in a feeder thread and cannot be drained reliably)
    import collections
    backlog = collections.deque((g, []) for g in groups)
    out_by_group = {g: 1 for g in groups}          # queued + in flight, per group
    outstanding = len(backlog)
    inflight = 0

    def feed():
        nonlocal inflight
        while backlog and inflight < 3 * jobs:
            task_q.put(backlog.popleft())
            inflight += 1
    feed()
    fatal = None
    t0 = time.time()
    deadline = t0 + (H.BUDGET_S[tier] if hasattr(H, 'BUDGET_S') else (600 if tier == 'quick' else 3600))
    drained = False
    while outstanding:
        if not drained and time.time() > deadline:
            # budget used up: tasks not yet handed out are not started (counted as cut); running ones finish
            drained = True
            while backlog:
                t = backlog.popleft()
                agg[t[0]]['cut'] += 1
                outstanding -= 1
                out_by_group[t[0]] -= 1
            if not outstanding:
                break
        try:
            out = res_q.get(timeout=5)
        except queue.Empty:
            if not any(p.is_alive() for p in procs):
                fatal = 'all workers died'
                break
            if time.time() > deadline + 240:
                # sub-trees still being explored long after the budget are abandoned and counted as cut
                # (reported as INCONCLUSIVE / exhaustive: false, never as a pass)
                for g_, k_ in out_by_group.items():
                    agg[g_]['cut'] += k_
                    agg[g_]['abandoned'] = agg[g_].get('abandoned', 0) + k_
                break
            continue
        if 'fatal' in out:
            fatal = out['fatal']
            break
        if time.time() > deadline + 360:
            for g_, k_ in out_by_group.items():
                agg[g_]['cut'] += k_
                agg[g_]['abandoned'] = agg[g_].get('abandoned', 0) + k_
            break
        outstanding -= 1
        inflight -= 1
        out_by_group[out['group']] -= 1
        a = agg[out['group']]
        for k in ('paths', 'done', 'aborted', 'exceptions', 'decisions', 'unexplored', 'queries', 'solver_s'):
            a[k] += out[k]
        for k, v in out['stub_calls'].items():
            a['stub_calls'][k] = a['stub_calls'].get(k, 0) + v
        for k, v in out.get('abort_reasons', {}).items():
            a['abort_reasons'][k] = a['abort_reasons'].get(k, 0) + v
        for k, c in out['counts'].items():
            d = a['counts'].setdefault(k, dict(ok=0, trivial=0, cex=0, unknown=0))
            for kk in c:
                d[kk] += c[kk]
        for cx in out['cex']:
            if sum(1 for x in a['cex'] if x['key'] == cx['key']) < 3:
                a['cex'].append(cx)
        if len(a['witnesses']) < groups[out['group']][1].get('witnesses', 12 if tier == 'quick' else 40):
            a['witnesses'].extend(out['witnesses'])
        if out['functions']:
            a['functions'] = out['functions']
        if out['twin'] is not None and a['twin'] is None:
            a['twin'] = out['twin']
        if len(a['samples']) < 2:
            a['samples'].extend(out['samples'])
        cap = groups[out['group']][1].get('max_paths', 20000 if tier == 'quick' else 200000)
        if a['paths'] >= cap or time.time() > deadline:
            a['cut'] += len(out['pending'])
        else:
            for p in out['pending']:
                backlog.append((out['group'], p))
                outstanding += 1
                out_by_group[out['group']] += 1
            feed()
        if verbose:
            print(f"  [{time.time()-t0:6.1f}s] {out['group']}: paths={a['paths']} outstanding={outstanding}",
                  file=sys.stderr)
    for _ in procs:
        task_q.put(None)
    for p in procs:
        p.join(timeout=2)
        if p.is_alive():
            p.terminate()
    # terminated workers leave unread data in the pipes: do not wait for the feeder threads at interpreter exit
    task_q.cancel_join_thread()
    res_q.cancel_join_thread()
    return H, groups, agg, fatal


def run_batch(items, timeout=1800):
    """Replay items (cex and witnesses) in ONE fresh process on unpatched thermosteam."""
    if not items:
        return []
    os.makedirs(os.path.join(ROOT, '.cache'), exist_ok=True)
    path = os.path.join(ROOT, '.cache', f'batch-{os.getpid()}-{int(time.time()*1000)}.json')
    with open(path, 'w') as f:
        json.dump(items, f)
    env = dict(os.environ)
    env.pop('NUMBA_DISABLE_JIT', None)
    env['SYMX_REPLAY'] = '1'
    try:
        p = subprocess.run([sys.executable, '-W', 'ignore', '-m', 'symx.replay', '--batch', path],
                           cwd=ROOT, env=env, capture_output=True, text=True, timeout=timeout)
        if p.returncode < 0:
            # the real code killed the replay process (e.g. SIGSEGV inside a numba-compiled kernel): isolate the
            # item(s) responsible; a counterexample whose replay crashes the interpreter has reproduced
            if len(items) > 1:
                h = len(items) // 2
                return run_batch(items[:h], timeout) + run_batch(items[h:], timeout)
            it = items[0]
            if it['kind'] == 'witness':
                return [dict(match=False, why=f'replay process died with signal {-p.returncode}')]
            return [dict(reproduced=True, mode='crash', detail=dict(info=it.get('info'), status='crash',
                         exc=f'the unpatched code terminated the replay process with signal {-p.returncode}',
                         observations=[], assume_failed=[]))]
        if p.returncode != 0:
            raise RuntimeError(f'replay process failed:\n{p.stdout[-2000:]}\n{p.stderr[-4000:]}')
        with open(path + '.out') as f:
            return json.load(f)
    finally:
        for q in (path, path + '.out'):
            try:
                os.remove(q)
            except OSError:
                pass


def load_known():
    p = os.path.join(ROOT, 'known_findings.json')
    if not os.path.exists(p):
        return []
    with open(p) as f:
        return [k for k in json.load(f).get('findings', []) if k.get('status') == 'open']


def match_known(known, pid, group, label, sig):
    for k in known:
        if k['property'] != pid:
            continue
        if not fnmatch.fnmatch(group, k.get('group', '*')):
            continue
        if not fnmatch.fnmatch(label, k.get('label', '*')):
            continue
        if not fnmatch.fnmatch(sig or '', k.get('sig', '*')):
            continue
        return k
    return None


def check(pid, tier, jobs, seed, only_group=None, verbose=False):
    t0 = time.time()
    H, groups, agg, fatal = explore(pid, tier, jobs, only_group, verbose)
    lines = []
    harness_errors = []
    if fatal:
        harness_errors.append('worker failure: ' + fatal[-3000:])
    # --- replay counterexamples and validate witnesses on unpatched code
    items = []
    for g, a in agg.items():
        for cx in a['cex']:
            items.append(dict(kind='cex', property=pid, tier=tier, group=g, label=cx['label'], sig=cx['sig'],
                              model=cx['model'], info=cx.get('info')))
        for w in a['witnesses']:
            items.append(dict(kind='witness', property=pid, tier=tier, group=g, model=w))
    results = []
    if items:
        try:
            results = run_batch(items)
        except Exception as e:
            harness_errors.append(f'replay batch failed: {e}'[:3000])
            results = [dict(error='batch failed')] * len(items)
    known = load_known()
    violations, known_hits, unconfirmed = [], {}, []
    validated = diverged = 0
    os.makedirs(os.path.join(ROOT, 'replays'), exist_ok=True)
    nrep = 0
    for it, res in zip(items, results):
        if it['kind'] == 'witness':
            if res.get('match'):
                validated += 1
            else:
                diverged += 1
                if verbose:
                    print('  witness diverged:', it['group'], res.get('why'), file=sys.stderr)
            continue
        if res.get('reproduced'):
            if res.get('label'):
                it = dict(it, label=res['label'], sig=res.get('sig'))
            k = match_known(known, pid, it['group'], it['label'], it['sig'])
            if k is not None:
                known_hits.setdefault(k['id'], k)
                continue
            if any((v[0]['group'], v[0]['label'], v[0]['sig']) == (it['group'], it['label'], it['sig'])
                   for v in violations):
                continue
            nrep += 1
            h = hashlib.sha1(json.dumps([it['group'], it['label'], it['sig']]).encode()).hexdigest()[:8]
            rp = os.path.join(ROOT, 'replays', f'{pid}-{h}-{nrep}.json')
            with open(rp, 'w') as f:
                json.dump(dict(property=pid, tier=tier, group=it['group'], label=it['label'], sig=it['sig'],
                               model=it['model'], info=it.get('info'), reproduced_in=res.get('mode'),
                               detail=res.get('detail')), f, indent=1)
            violations.append((it, rp, res))
        else:
            unconfirmed.append((it, res))
    # several cex of one (group,label,sig): the obligation counts as violated if any reproduced
    seen_repro = {(it['group'], it['label'], it['sig']) for it, _, _ in violations}
    seen_known = set()
    for it, res in zip(items, results):
        if it['kind'] == 'cex' and res.get('reproduced') and match_known(known, pid, it['group'], it['label'], it['sig']):
            seen_known.add((it['group'], it['label'], it['sig']))
    really_unconfirmed = [(it, res) for it, res in unconfirmed
                          if (it['group'], it['label'], it['sig']) not in seen_repro | seen_known]
    for n_, (it, res) in enumerate(really_unconfirmed[:5]):
        with open(os.path.join(ROOT, '.cache', f'unconfirmed-{pid}-{n_}.json'), 'w') as f:
            json.dump(dict(item=it, result=res), f, indent=1, default=str)
    for it, res in really_unconfirmed:
        harness_errors.append(f"counterexample did not reproduce on unpatched code: group={it['group']} "
                              f"label={it['label']} sig={it['sig']} ({res.get('why') or res.get('error')})")
    # --- bookkeeping
    tot = dict(paths=0, done=0, aborted=0, exceptions=0, decisions=0, queries=0, solver_s=0.0, cut=0,
               unexplored=0)
    obligations = discharged = unknown = trivial = cexn = 0
    per_group = {}
    functions = set()
    for g, a in agg.items():
        for k in tot:
            tot[k] += a[k]
        go = gd = gu = gc = 0
        for k, c in a['counts'].items():
            n = c['ok'] + c['cex'] + c['unknown']
            go += n
            gd += c['ok']
            gu += c['unknown']
            gc += c['cex']
            trivial += c['trivial']
        obligations += go
        discharged += gd
        unknown += gu
        cexn += gc
        functions.update(a['functions'])
        per_group[g] = dict(paths=a['paths'], done=a['done'], aborted=a['aborted'], obligations=go,
                            discharged=gd, unknown=gu, cex=gc, queries=a['queries'],
                            solver_s=round(a['solver_s'], 2), paths_cut=a['cut'],
                            twin_false_violated=a['twin'], stub_calls=a['stub_calls'],
                            abort_reasons=a['abort_reasons'],
                            labels={k: c for k, c in sorted(a['counts'].items())})
        if a['done'] == 0 and not fatal:
            harness_errors.append(f'vacuous group {g}: no path reached the end '
                                  f'(aborted={a["aborted"]} exceptions={a["exceptions"]} {a["abort_reasons"]})')
        elif go == 0 and not fatal:
            harness_errors.append(f'vacuous group {g}: no obligation reached')
        if a['twin'] is False:
            harness_errors.append(f'reachability twin of group {g} was not violated (vacuous path condition)')
        need = groups[g][1].get('stubs_required', ())
        for s in need:
            if not a['stub_calls'].get(s):
                harness_errors.append(f'group {g}: stub {s} was never called (seam moved?)')
    nwit = validated + diverged
    if nwit and validated == 0:
        harness_errors.append(f'no path witness out of {nwit} agreed with the unpatched code (encoding broken)')
    inconclusive = unknown + tot['cut'] + tot['unexplored']
    # --- output
    for kid, k in known_hits.items():
        lines.append(f"KNOWN-FINDING: property={pid} {k['what']}")
    for it, rp, res in violations[:40]:
        lines.append(f"VIOLATION property={pid} replay={rp}")
        lines.append(f"  group={it['group']} obligation={it['label']} sig={it['sig']} reproduced_in={res.get('mode')} "
                     f"detail={json.dumps(res.get('detail'))[:300]}")
    if len(violations) > 40:
        lines.append(f"  ... and {len(violations) - 40} more distinct violations (replay files under replays/)")
    for e in harness_errors:
        lines.append('HARNESS-ERROR: ' + e)
    if inconclusive:
        lines.append(f'INCONCLUSIVE: unknown_obligations={unknown} paths_cut={tot["cut"]} '
                     f'undecided_branches={tot["unexplored"]}')
    wall = time.time() - t0
    samples = []
    for g, a in agg.items():
        samples.extend(a['samples'][:1])
    ev = dict(
        property_id=pid, tier=tier, seed=seed, level='model_checking',
        coverage=dict(
            states=max(tot['paths'], 0), transitions=max(tot['decisions'], 0),
            traces_validated_against_impl=validated, traces_diverged_float=diverged,
            samples=samples[:8] or [dict(note='no path finished')],
            obligations=obligations, discharged=discharged, unknown=unknown, counterexamples=cexn,
            trivially_true_obligations=trivial,
            paths_cut=tot['cut'], undecided_branches=tot['unexplored'], aborted_paths=tot['aborted'],
            queries=tot['queries'], solver_s=round(tot['solver_s'], 2),
            exhaustive=(inconclusive == 0 and not harness_errors),
            functions_encoded=sorted(functions), groups=per_group,
            bounds=getattr(H, 'BOUNDS', {}).get(tier, {}), stubs=getattr(H, 'STUBS', []),
            outside_claim=getattr(H, 'OUTSIDE', []),
            known_findings_hit=sorted(known_hits), solver='z3 ' + _z3v(),
            explanation='dynamic symbolic execution of the real thermosteam code with z3 (symx); '
                        'each obligation is the negated property conjoined with the path condition'),
        assumptions=list(getattr(H, 'ASSUMPTIONS', [])),
        wall_s=round(wall, 2), violations=len(violations),
        harness_errors=harness_errors,
    )
    if ev['coverage']['states'] < 1:
        ev['coverage']['states'] = 1
    if ev['coverage']['transitions'] < 1:
        ev['coverage']['transitions'] = 1
    os.makedirs(os.path.join(ROOT, 'evidence'), exist_ok=True)
    if not only_group:
        with open(os.path.join(ROOT, 'evidence', f'{pid}.json'), 'w') as f:
            json.dump(ev, f, indent=1, default=str)
    summary = (f'{pid} {tier}: groups={len(agg)} paths={tot["paths"]} obligations={obligations} '
               f'discharged={discharged} unknown={unknown} cex={cexn} queries={tot["queries"]} '
               f'solver_s={tot["solver_s"]:.1f} witnesses_validated={validated}/{nwit} wall={wall:.1f}s')
    lines.append(summary)
    code = EXIT_OK
    if harness_errors:
        code = EXIT_HARNESS
    if violations:
        code = EXIT_VIOLATION
    return code, lines, ev


def _z3v():
    import z3
    return z3.get_version_string()


def main(argv=None):
    ap = argparse.ArgumentParser()
    ap.add_argument('property')
    ap.add_argument('--tier', default=os.environ.get('VERIF_TIER', 'quick'), choices=['quick', 'thorough'])
    ap.add_argument('--replay')
    ap.add_argument('--jobs', type=int, default=int(os.environ.get('VERIF_JOBS', '0')) or min(16, os.cpu_count() or 4))
    ap.add_argument('--group')
    ap.add_argument('-v', '--verbose', action='store_true')
    a = ap.parse_args(argv)
    seed = int(os.environ.get('VERIF_SEED', '0') or 0)
    if a.replay:
        with open(a.replay) as f:
            rp = json.load(f)
        item = dict(kind='cex', property=rp['property'], tier=rp.get('tier', 'quick'), group=rp['group'],
                    label=rp['label'], sig=rp.get('sig'), model=rp['model'], info=rp.get('info'))
        res = run_batch([item])[0]
        print(json.dumps(res, indent=1))
        if res.get('reproduced'):
            print(f"VIOLATION property={rp['property']} replay={a.replay}")
            return EXIT_VIOLATION
        print('not reproduced')
        return EXIT_OK
    import thermosteam
    if not os.path.realpath(thermosteam.__file__).startswith(_REPO):
        print(f'HARNESS-ERROR: thermosteam imported from {thermosteam.__file__}, not from the tree under test {_REPO}')
        return EXIT_HARNESS
    code, lines, ev = check(a.property.upper(), a.tier, a.jobs, seed, a.group, a.verbose)
    for ln in lines:
        print(ln)
    return code


if __name__ == '__main__':
    sys.exit(main())
