"""symx — a small dynamic symbolic executor for Python backed by z3.

The real thermosteam code is executed with `SymNum` proxies in place of floats.
Every `bool()` taken on a symbolic condition is a branch: the engine asks z3 which
sides are feasible under the current path condition, follows one and queues the
other (depth first, re-execution from the decision prefix).  Harnesses state
obligations with `Engine.prove`; the negation of each obligation is handed to z3
together with the path condition: `unsat` = holds on this path for every value,
`sat` = a concrete counterexample (replayed on the unpatched code by symx.replay),
`unknown` = inconclusive (never a pass).

The same harness code runs unchanged on `ConcreteEngine`, which feeds it Python
floats taken from a model; that is how counterexamples are replayed and how path
witnesses validate the encoding.
"""
import builtins
import fractions
import math
import sys
import threading
import time

import numpy as _np
import z3

try:
    sys.set_int_max_str_digits(0)      # models may contain rationals with thousands of digits
except AttributeError:
    pass

__all__ = ['Engine', 'ConcreteEngine', 'SymNum', 'SymBool', 'PathAbort', 'symfloat',
           'is_sym', 'current', 'zval']


INCREMENTAL_MS = 4000


class PathAbort(BaseException):
    """Raised to abandon a path (infeasible assumption, budget).  BaseException so
    that `except Exception` in the code under analysis cannot swallow it."""


_ENG = None


def current():
    return _ENG


def _set_current(e):
    global _ENG
    _ENG = e


def is_sym(x):
    return isinstance(x, (SymNum, SymBool))


def _realval(x):
    if isinstance(x, bool):
        return z3.RealVal(int(x))
    if isinstance(x, int):
        return z3.RealVal(x)
    if isinstance(x, fractions.Fraction):
        return z3.RealVal(str(x))
    x = builtins.float(x)
    if x == int(x) and abs(x) < 1e15:
        return z3.RealVal(int(x))
    return z3.RealVal(repr(x))


def zval(x):
    """z3 Real term for a SymNum / Python / NumPy number; None if not a finite number."""
    if isinstance(x, SymNum):
        return x.z
    if isinstance(x, (bool, _np.bool_)):
        return z3.RealVal(int(x))
    if isinstance(x, (int, _np.integer)):
        return z3.RealVal(int(x))
    if isinstance(x, (builtins.float, _np.floating)):
        if math.isfinite(x):
            return _realval(x)
        return None
    if isinstance(x, fractions.Fraction):
        return _realval(x)
    if isinstance(x, SymBool):
        return z3.If(x.z, z3.RealVal(1), z3.RealVal(0))
    if isinstance(x, _np.ndarray) and x.ndim == 0:
        return zval(x.item())
    return None


def _zb(x):
    if isinstance(x, SymBool):
        return x.z
    if isinstance(x, SymNum):
        return x.z != 0
    return z3.BoolVal(bool(x))


class SymBool:
    __slots__ = ('z', 'strong_neg')
    __array_ufunc__ = None

    def __init__(self, z_, strong_neg=None):
        self.z = z_
        self.strong_neg = strong_neg     # optional robust form of the negation

    def __bool__(self):
        return _ENG.branch(self.z)

    def _sn(self):
        return self.strong_neg if self.strong_neg is not None else z3.Not(self.z)

    def __and__(self, o):
        if isinstance(o, SymBool):
            return SymBool(z3.And(self.z, o.z), z3.Or(self._sn(), o._sn()))
        if isinstance(o, SymNum):
            return self & (o != 0)
        return self if o else False
    __rand__ = __and__

    def __or__(self, o):
        if isinstance(o, SymBool):
            return SymBool(z3.Or(self.z, o.z), z3.And(self._sn(), o._sn()))
        if isinstance(o, SymNum):
            return self | (o != 0)
        return True if o else self
    __ror__ = __or__

    def __xor__(self, o):
        return SymBool(z3.Xor(self.z, _zb(o)))
    __rxor__ = __xor__

    def __invert__(self):
        return SymBool(z3.Not(self.z))

    def __eq__(self, o):
        if isinstance(o, (SymBool, bool, _np.bool_)):
            return SymBool(self.z == _zb(o))
        oz = zval(o)
        if oz is None:
            return False
        return SymBool(zval(self) == oz)

    def __ne__(self, o):
        r = self.__eq__(o)
        return ~r if isinstance(r, SymBool) else (not r)

    def __hash__(self):
        return hash(self.z)

    # numeric view (True == 1.0)
    def _num(self):
        return SymNum(z3.If(self.z, z3.RealVal(1), z3.RealVal(0)))

    def __add__(self, o): return self._num() + o
    def __radd__(self, o): return o + self._num()
    def __sub__(self, o): return self._num() - o
    def __rsub__(self, o): return o - self._num()
    def __mul__(self, o): return self._num() * o
    def __rmul__(self, o): return o * self._num()
    def __truediv__(self, o): return self._num() / o
    def __rtruediv__(self, o): return o / self._num()
    def __neg__(self): return -self._num()
    def __lt__(self, o): return self._num() < o
    def __le__(self, o): return self._num() <= o
    def __gt__(self, o): return self._num() > o
    def __ge__(self, o): return self._num() >= o
    def __float__(self): return self._num()

    def __repr__(self):
        return f'SymBool({self.z})'


def _div(a, b):
    if z3.is_rational_value(b):
        if b.numerator_as_long() == 0:
            raise ZeroDivisionError('float division by zero')
        return a / b
    if not _ENG.branch(b != 0):
        raise ZeroDivisionError('float division by zero')
    if a.eq(b) or z3.simplify(a).eq(z3.simplify(b)):
        return z3.RealVal(1)        # x / x with x != 0 on this path
    return a / b


def _pow(a, b):
    if z3.is_int_value(b) or (z3.is_rational_value(b) and b.denominator_as_long() == 1):
        n = b.numerator_as_long() if z3.is_rational_value(b) else b.as_long()
        if 0 <= n <= 4:
            r = z3.RealVal(1)
            for _ in range(n):
                r = r * a
            return r
        if -4 <= n < 0:
            if not _ENG.branch(a != 0):
                raise ZeroDivisionError('0.0 cannot be raised to a negative power')
            r = z3.RealVal(1)
            for _ in range(-n):
                r = r * a
            return 1 / r
    if z3.is_rational_value(a) and z3.is_rational_value(b):
        return _realval(builtins.float(a.as_fraction()) ** builtins.float(b.as_fraction()))
    return _ENG.uf_z('pow', a, b)


class SymNum:
    __slots__ = ('z',)
    __array_ufunc__ = None
    __array_priority__ = 1000

    def __init__(self, z_):
        self.z = z_

    def _bin(self, o, f, r=False):
        if isinstance(o, _np.ndarray) and o.ndim:
            out = _np.empty(o.shape, dtype=object)
            for idx, v in _np.ndenumerate(o):
                out[idx] = self._bin(v, f, r)
            from .shim import OArr
            return out.view(OArr)
        oz = zval(o)
        if oz is None:
            if isinstance(o, (builtins.float, _np.floating)):   # nan / inf
                return o
            return NotImplemented
        return SymNum(f(oz, self.z) if r else f(self.z, oz))

    def __add__(s, o): return s._bin(o, lambda a, b: a + b)
    def __radd__(s, o): return s._bin(o, lambda a, b: a + b, True)
    def __sub__(s, o): return s._bin(o, lambda a, b: a - b)
    def __rsub__(s, o): return s._bin(o, lambda a, b: a - b, True)
    def __mul__(s, o): return s._bin(o, lambda a, b: a * b)
    def __rmul__(s, o): return s._bin(o, lambda a, b: a * b, True)
    def __truediv__(s, o): return s._bin(o, _div)
    def __rtruediv__(s, o): return s._bin(o, _div, True)
    def __pow__(s, o): return s._bin(o, _pow)
    def __rpow__(s, o): return s._bin(o, _pow, True)
    def __neg__(s): return SymNum(-s.z)
    def __pos__(s): return s
    def __abs__(s): return SymNum(z3.If(s.z >= 0, s.z, -s.z))

    def _cmp(s, o, f):
        if isinstance(o, _np.ndarray) and o.ndim:
            out = _np.empty(o.shape, dtype=object)
            for idx, v in _np.ndenumerate(o):
                out[idx] = s._cmp(v, f)
            from .shim import OArr
            return out.view(OArr)
        oz = zval(o)
        if oz is None:
            return NotImplemented
        return SymBool(f(s.z, oz))

    def __eq__(s, o):
        r = s._cmp(o, lambda a, b: a == b)
        return False if r is NotImplemented else r

    def __ne__(s, o):
        r = s._cmp(o, lambda a, b: a != b)
        return True if r is NotImplemented else r

    def __lt__(s, o): return s._cmp(o, lambda a, b: a < b)
    def __le__(s, o): return s._cmp(o, lambda a, b: a <= b)
    def __gt__(s, o): return s._cmp(o, lambda a, b: a > b)
    def __ge__(s, o): return s._cmp(o, lambda a, b: a >= b)
    def __bool__(s): return _ENG.branch(s.z != 0)
    def __float__(s): return s       # only meaningful when called as a method
    def __hash__(s): return hash(s.z)
    def __repr__(s): return f'Sym({s.z})'
    def __format__(s, spec): return repr(s)

    # NumPy-scalar look-alikes used by thermosteam code on values
    ndim = 0
    shape = ()
    size = 1
    dtype = _np.dtype(object)

    def item(s): return s
    def copy(s): return s
    def __copy__(s): return s
    def __deepcopy__(s, memo): return s
    def sum(s, *a, **k): return s
    def any(s, *a, **k): return s != 0
    def all(s, *a, **k): return s != 0
    def conjugate(s): return s

    def __reduce__(s):
        return (_unpickle_sym, (s.z.sexpr(), sorted({(d.decl().name(), d.decl().arity()) for d in _decls(s.z)})))


def _decls(t):
    seen, out, todo = set(), [], [t]
    while todo:
        e = todo.pop()
        if e.get_id() in seen:
            continue
        seen.add(e.get_id())
        if z3.is_app(e) and e.decl().kind() == z3.Z3_OP_UNINTERPRETED:
            out.append(e)
        todo.extend(e.children())
    return out


def _unpickle_sym(sexpr, names):
    R = z3.RealSort()
    decls = {n: (z3.Real(n) if not a else z3.Function(n, *([R] * (a + 1)))) for n, a in names}
    e = z3.parse_smt2_string(f'(assert (= 0.0 {sexpr}))', decls=decls)[0]
    return SymNum(e.arg(1))


class _SymFloatMeta(type):
    """`float` stand-in inside modules under analysis: identity on symbolic numbers,
    builtin float otherwise; a class (not a function) so that it can sit in class attributes
    (`dtype = float`) and in isinstance() checks."""
    def __call__(cls, x=0.0):
        if isinstance(x, SymNum):
            return x
        if isinstance(x, SymBool):
            return x._num()
        if isinstance(x, _np.ndarray) and x.dtype == object and x.size == 1:
            return cls(x.reshape(-1)[0])
        return builtins.float(x)

    def __instancecheck__(cls, x):
        return isinstance(x, (builtins.float, SymNum))

    def __repr__(cls):
        return "<class 'float'>"


class symfloat(metaclass=_SymFloatMeta):
    pass


def symabs(x):
    return abs(x)


def _rat_to_float(v):
    if z3.is_rational_value(v):
        n, d = v.numerator_as_long(), v.denominator_as_long()
        try:
            return n / d if d != 1 else builtins.float(n)
        except OverflowError:        # a model value beyond the float range: such a model cannot be replayed exactly
            return 1.7e308 if (n > 0) == (d > 0) else -1.7e308
    if z3.is_algebraic_value(v):
        return builtins.float(v.approx(20).as_fraction())
    if z3.is_int_value(v):
        return builtins.float(v.as_long())
    raise ValueError(f'not a numeric value: {v}')


class Engine:
    """Symbolic engine for one group of paths."""
    concrete = False
    mode = 'sym'

    def __init__(self, qtimeout_ms=10000, max_depth=4000):
        self.qtimeout = qtimeout_ms
        self.max_depth = max_depth
        self.stats = dict(paths=0, queries=0, solver_s=0.0, unknown_branch=0, decisions=0,
                          aborted=0)
        self.reset_hooks = []

    # ------------------------------------------------------------------ per path
    def _reset(self, prefix):
        self.prefix = list(prefix)
        self.decisions = []
        self.choices = []            # (name, n, k) for choice() calls only
        self.pending = []
        self.solver = z3.Solver()
        self.solver.set('timeout', self.qtimeout)
        self.pc = []
        self.model = None            # a model of the current path condition (or None)
        self.vars = {}               # name -> z3 const
        self.nice = {}               # name -> (lo, hi)
        self.ufs = {}
        self.uf_apps = []            # (name, arg terms, application term)
        self.obligations = []        # dicts
        self.observations = []       # (name, SymNum|float)
        self.stub_calls = {}
        self.assumptions = []
        self.notes = []

    def _check(self, *extra, timeout=None):
        t = time.time()
        s = self.solver
        s.push()
        for e in extra:
            s.add(e)
        # the incremental core is only given a short time: where it does not answer quickly (division by symbolic
        # values, uninterpreted functions) the non-incremental retry of the callers decides in milliseconds, while
        # waiting out the full budget here costs qtimeout per query
        if timeout is None and self.qtimeout > INCREMENTAL_MS:
            timeout = INCREMENTAL_MS
        lim = (timeout or self.qtimeout) / 1000.0
        if timeout:
            s.set('timeout', timeout)
        timer = threading.Timer(lim + 2.0, z3.main_ctx().interrupt)
        timer.start()
        try:
            r = s.check()
        except z3.Z3Exception:
            r = z3.unknown
        finally:
            timer.cancel()
        m = None
        if r == z3.sat:
            try:
                m = s.model()
            except z3.Z3Exception:
                r = z3.unknown
        s.pop()
        if timeout:
            s.set('timeout', self.qtimeout)
        self.stats['queries'] += 1
        self.stats['solver_s'] += time.time() - t
        return str(r), m

    def _check0(self):
        """satisfiability of the path condition alone, with the non-incremental retry"""
        r, m = self._check()
        if r == 'unknown':
            r, m = self._fresh_check([], max(self.qtimeout, 20000))
        return r, m

    def _check2(self, cond):
        """incremental check; an `unknown` is retried once non-incrementally (lets z3 pick nlsat)"""
        r, m = self._check(cond)
        if r == 'unknown':
            r, m = self._fresh_check([cond], max(self.qtimeout, 20000))
        if r == 'unknown' and self._abstract_unsat(cond, max(self.qtimeout, 20000)):
            r, m = 'unsat', None         # infeasible even without the congruence axioms
        return r, m

    def _fresh_check(self, extra, timeout):
        """Non-incremental retry (lets z3 pick nlsat) for an `unknown`."""
        t = time.time()
        s = z3.Solver()
        s.set('timeout', timeout)
        for c in self.pc:
            s.add(c)
        for e in extra:
            s.add(e)
        timer = threading.Timer(timeout / 1000.0 + 2.0, z3.main_ctx().interrupt)
        timer.start()
        try:
            r = s.check()
        except z3.Z3Exception:
            r = z3.unknown
        finally:
            timer.cancel()
        m = s.model() if r == z3.sat else None
        self.stats['queries'] += 1
        self.stats['solver_s'] += time.time() - t
        return str(r), m

    def _abstract_unsat(self, neg, timeout):
        """Last resort for an `unknown` obligation: every application of an uninterpreted function is replaced by
        a fresh real constant (the same term by the same constant) and the query is decided as pure nonlinear real
        arithmetic.  Dropping the congruence axioms only WEAKENS the assumptions, so `unsat` of the abstraction
        implies `unsat` of the original; any other answer is discarded."""
        t = time.time()
        exprs = list(self.pc) + [neg]
        apps, seen, todo = [], set(), list(exprs)
        while todo:
            e = todo.pop()
            if e.get_id() in seen:
                continue
            seen.add(e.get_id())
            if z3.is_app(e) and e.num_args() > 0 and e.decl().kind() == z3.Z3_OP_UNINTERPRETED:
                apps.append(e)
            todo.extend(e.children())
        if not apps:
            return False
        # outer applications first, so that a nested application disappears together with the term around it
        apps.sort(key=lambda a: -len(a.sexpr()))
        sub = [(a, z3.Real(f'__uf{k}')) for k, a in enumerate(apps)]
        s = z3.Solver()
        s.set('timeout', timeout)
        for e in exprs:
            s.add(z3.substitute(e, *sub))
        timer = threading.Timer(timeout / 1000.0 + 2.0, z3.main_ctx().interrupt)
        timer.start()
        try:
            r = s.check()
        except z3.Z3Exception:
            r = z3.unknown
        finally:
            timer.cancel()
        self.stats['queries'] += 1
        self.stats['solver_s'] += time.time() - t
        return r == z3.unsat

    def _model_says(self, cond):
        if self.model is None:
            return None
        try:
            v = self.model.eval(cond, model_completion=True)
        except z3.Z3Exception:
            return None
        if z3.is_true(v):
            return True
        if z3.is_false(v):
            return False
        return None

    def _add(self, c):
        self.pc.append(c)
        self.solver.add(c)

    def branch(self, cond):
        cond = z3.simplify(cond)
        if z3.is_true(cond):
            return True
        if z3.is_false(cond):
            return False
        i = len(self.decisions)
        if i >= self.max_depth:
            raise PathAbort('max depth')
        if i < len(self.prefix):
            d = self.prefix[i]
            self.decisions.append(d)
            self._add(cond if d else z3.Not(cond))
            if self.model is not None and self._model_says(cond) is not bool(d):
                self.model = None
            return d
        known = self._model_says(cond)
        if known is None:
            rt, mt = self._check2(cond)
            if rt == 'sat':
                known = True
                self.model = mt
            elif rt == 'unsat':
                d = False
                self.decisions.append(d)
                self._add(z3.Not(cond))
                return d
            else:
                rf, mf = self._check2(z3.Not(cond))
                self.stats['unknown_branch'] += 1
                if rf == 'sat':
                    # cannot decide cond; follow the side we know is feasible and
                    # record that the other side was not explored
                    self.unexplored = getattr(self, 'unexplored', 0) + 1
                    self.model = mf
                    self.decisions.append(False)
                    self._add(z3.Not(cond))
                    return False
                raise PathAbort('unknown branch feasibility')
        # `known` side is feasible (witnessed by self.model); ask about the other
        other = z3.Not(cond) if known else cond
        ro, mo = self._check2(other)
        if ro == 'unknown':
            self.stats['unknown_branch'] += 1
            self.unexplored = getattr(self, 'unexplored', 0) + 1
        if ro == 'sat':
            self.pending.append(self.decisions + [not known])
        d = known
        self.decisions.append(d)
        self._add(cond if d else z3.Not(cond))
        return d

    def choice(self, n, name='c'):
        """Finite nondeterministic choice; forks n ways without the solver."""
        if n <= 1:
            self.choices.append((name, n, 0))
            return 0
        i = len(self.decisions)
        if i < len(self.prefix):
            d = self.prefix[i]
        else:
            d = 0
            for k in range(n - 1, 0, -1):
                self.pending.append(self.decisions + [k])
        self.decisions.append(d)
        self.choices.append((name, n, d))
        return d

    def pick(self, seq, name='pick'):
        seq = list(seq)
        return seq[self.choice(len(seq), name)]

    # ------------------------------------------------------------------ values
    def real(self, name, lo=None, hi=None, nice=None, lo_open=False, hi_open=False):
        if name in self.vars:
            k = 2
            while f'{name}#{k}' in self.vars:
                k += 1
            name = f'{name}#{k}'
        v = z3.Real(name)
        self.vars[name] = v
        if lo is not None:
            self._assume_z(v > lo if lo_open else v >= lo, f'{name} {">" if lo_open else ">="} {lo}')
        if hi is not None:
            self._assume_z(v < hi if hi_open else v <= hi, f'{name} {"<" if hi_open else "<="} {hi}')
        if nice is not None:
            self.nice[name] = nice
        return SymNum(v)

    def bool(self, name):
        if name in self.vars:
            k = 2
            while f'{name}#{k}' in self.vars:
                k += 1
            name = f'{name}#{k}'
        v = z3.Bool(name)
        self.vars[name] = v
        return SymBool(v)

    def uf_z(self, name, *zs):
        key = (name, len(zs))
        f = self.ufs.get(key)
        if f is None:
            f = self.ufs[key] = z3.Function(name, *([z3.RealSort()] * (len(zs) + 1)))
        app = f(*zs)
        self.uf_apps.append((name, zs, app))
        return app

    def uf(self, name, *args):
        zs = []
        for a in args:
            z_ = zval(a)
            if z_ is None:
                raise TypeError(f'uf {name}: non-numeric argument {a!r}')
            zs.append(z_)
        return SymNum(self.uf_z(name, *zs))

    # ------------------------------------------------------------------ logic
    def _assume_z(self, cond, text=None):
        cond = z3.simplify(cond)
        if z3.is_true(cond):
            return
        if z3.is_false(cond):
            raise PathAbort('assume false')
        self._add(cond)
        if self._model_says(cond) is True:
            return
        r, m = self._check0()
        if r == 'unsat':
            raise PathAbort('assume infeasible')
        if r == 'unknown':
            self.stats['unknown_branch'] += 1
            self.model = None
            return
        self.model = m

    def assume(self, cond, text=None):
        if text:
            self.assumptions.append(text)
        if isinstance(cond, (SymBool, SymNum)):
            return self._assume_z(_zb(cond))
        if isinstance(cond, z3.BoolRef):
            return self._assume_z(cond)
        if not cond:
            raise PathAbort('assume false')

    def prove(self, label, cond, sig=None, info=None):
        """Obligation: path condition implies cond."""
        ob = dict(label=label, sig=sig, status=None)
        self.obligations.append(ob)
        strong = None
        if isinstance(cond, SymBool):
            strong = cond.strong_neg
            cz = cond.z
        elif isinstance(cond, SymNum):
            cz = cond.z != 0
        elif isinstance(cond, z3.BoolRef):
            cz = cond
        else:
            if cond:
                ob['status'] = 'ok'
                ob['trivial'] = True
            else:
                ob['status'] = 'cex'
                ob['model'] = self._export_model(self._path_model())
                if info:
                    ob['info'] = info
            return ob['status'] == 'ok'
        cz = z3.simplify(cz)
        if z3.is_true(cz):
            ob['status'] = 'ok'
            ob['trivial'] = True
            return True
        neg = z3.Not(cz)
        r, m = self._check(neg)
        if r == 'unknown':
            r, m = self._fresh_check([neg], max(self.qtimeout * 3, 30000))
        if r == 'unknown' and self._abstract_unsat(neg, max(self.qtimeout * 3, 30000)):
            ob['abstracted'] = True
            r = 'unsat'
        if r == 'unsat':
            ob['status'] = 'ok'
            return True
        if r == 'unknown':
            ob['status'] = 'unknown'
            return False
        # counterexample: try to make it robust and nice for float replay
        best = m
        nice = [z3.And(self.vars[n] >= lo, self.vars[n] <= hi) for n, (lo, hi) in self.nice.items()
                if n in self.vars]
        for extra in ([strong] + nice if strong is not None else None, [strong] if strong is not None else None,
                      nice if nice else None):
            if not extra:
                continue
            r2, m2 = self._check(neg, *extra, timeout=self.qtimeout)
            if r2 == 'unknown':
                r2, m2 = self._fresh_check([neg] + list(extra), self.qtimeout)
            if r2 == 'sat':
                best = m2
                break
        ob['status'] = 'cex'
        ob['model'] = self._export_model(best)
        if info:
            ob['info'] = info
        return False

    def fail(self, label, sig=None, info=None):
        """Unconditional violation on this (feasible) path."""
        return self.prove(label, False, sig=sig, info=info)

    def _path_model(self):
        if self.model is not None:
            ok = True
            return self.model
        r, m = self._check0()
        if r == 'sat':
            self.model = m
        return m

    def nice_path_model(self):
        nice = [z3.And(self.vars[n] >= lo, self.vars[n] <= hi) for n, (lo, hi) in self.nice.items()
                if n in self.vars]
        if nice:
            r, m = self._check(*nice, timeout=min(self.qtimeout, 3000))
            if r == 'sat':
                return m
        return self._path_model()

    def _export_model(self, m):
        """Model -> JSON-able dict: variable values (as floats + exact strings), uf tables."""
        if m is None:
            return None
        vals, exact = {}, {}
        for n, v in self.vars.items():
            mv = m.eval(v, model_completion=True)
            if z3.is_bool(v):
                vals[n] = bool(z3.is_true(mv))
            else:
                vals[n] = _rat_to_float(mv)
                exact[n] = str(mv)
        ufs = {}
        seen = set()
        for name, zs, app in self.uf_apps:
            try:
                args = [_rat_to_float(m.eval(z_, model_completion=True)) for z_ in zs]
                val = _rat_to_float(m.eval(app, model_completion=True))
            except (ValueError, z3.Z3Exception):
                continue
            key = (name, tuple(args))
            if key in seen:
                continue
            seen.add(key)
            ufs.setdefault(name, dict(arity=len(zs), table=[], default=None))['table'].append([args, val])
        # also record the value of each uf application that occurs in the path
        return dict(values=vals, exact=exact, ufs=ufs, choices=[list(c) for c in self.choices])

    def eval_float(self, x, m):
        if isinstance(x, SymNum):
            return _rat_to_float(m.eval(x.z, model_completion=True))
        if isinstance(x, SymBool):
            return bool(z3.is_true(m.eval(x.z, model_completion=True)))
        if isinstance(x, (_np.floating, _np.integer)):
            return x.item()
        return x

    # condition builders (work on SymNum and plain numbers alike)
    def eq(self, a, b):
        za, zb = zval(a), zval(b)
        if za is None or zb is None:
            return _concrete_eq(a, b)
        if not isinstance(a, SymNum) and not isinstance(b, SymNum):
            return _concrete_eq(a, b)
        d = za - zb
        ad = z3.If(d >= 0, d, -d)
        aa = z3.If(za >= 0, za, -za)
        ab = z3.If(zb >= 0, zb, -zb)
        return SymBool(za == zb, ad > 1e-6 * (1 + aa + ab))

    def ne(self, a, b):
        r = self.eq(a, b)
        return ~r if isinstance(r, SymBool) else (not r)

    def le(self, a, b):
        za, zb = zval(a), zval(b)
        if not isinstance(a, SymNum) and not isinstance(b, SymNum):
            return a <= b + 1e-9 * (1 + abs(a) + abs(b))
        aa = z3.If(za >= 0, za, -za)
        ab = z3.If(zb >= 0, zb, -zb)
        return SymBool(za <= zb, za - zb > 1e-6 * (1 + aa + ab))

    def ge(self, a, b):
        return self.le(b, a)

    def lt(self, a, b):
        za, zb = zval(a), zval(b)
        if not isinstance(a, SymNum) and not isinstance(b, SymNum):
            return a < b
        return SymBool(za < zb)

    def gt(self, a, b):
        return self.lt(b, a)

    def all(self, conds):
        out = True
        for c in conds:
            if isinstance(c, SymNum):
                c = c != 0
            if isinstance(c, SymBool):
                out = c if out is True else (out & c)
            elif not c:
                return False
        return out

    def any(self, conds):
        out = False
        for c in conds:
            if isinstance(c, SymNum):
                c = c != 0
            if isinstance(c, SymBool):
                out = c if out is False else (out | c)
            elif c:
                return True
        return out

    def implies(self, a, b):
        na = ~a if isinstance(a, SymBool) else (not a)
        return self.any([na, b])

    def ite(self, c, a, b):
        if isinstance(c, SymBool):
            return SymNum(z3.If(c.z, zval(a), zval(b)))
        return a if c else b

    def is_zero(self, x):
        return self.eq(x, 0.0)

    def observe(self, name, value):
        self.observations.append((name, value))

    def stub_called(self, name):
        self.stub_calls[name] = self.stub_calls.get(name, 0) + 1

    def note(self, s):
        self.notes.append(s)

    # ------------------------------------------------------------------ driver
    def run_path(self, fn, prefix):
        """Execute one path; returns record dict."""
        self._reset(prefix)
        for h in self.reset_hooks:
            h()
        _set_current(self)
        rec = dict(status='done')
        try:
            fn(self)
        except PathAbort as e:
            rec['status'] = 'abort'
            rec['why'] = str(e)
            self.stats['aborted'] += 1
        except RecursionError:
            rec['status'] = 'abort'
            rec['why'] = 'recursion'
            self.stats['aborted'] += 1
        except Exception as e:      # escaped exception = obligation 'no-exception'
            import traceback
            tb = traceback.extract_tb(e.__traceback__)
            where = [f'{f.filename.split("/")[-1]}:{f.lineno}:{f.name}' for f in tb[-4:]]
            self.prove(f'no-exception', False, sig=type(e).__name__,
                       info=dict(exc=f'{type(e).__name__}: {e}'[:300], where=where))
            rec['status'] = 'exception'
            rec['exc'] = f'{type(e).__name__}: {e}'[:300]
        self.stats['paths'] += 1
        self.stats['decisions'] += len(self.decisions)
        rec['decisions'] = list(self.decisions)
        rec['choices'] = [list(c) for c in self.choices]
        rec['obligations'] = self.obligations
        rec['pending'] = self.pending
        rec['stub_calls'] = dict(self.stub_calls)
        rec['unexplored'] = getattr(self, 'unexplored', 0)
        self.unexplored = 0
        return rec

    def witness(self):
        """Model of the finished path + observed outputs evaluated under it."""
        m = self.nice_path_model()
        if m is None:
            return None
        w = self._export_model(m)
        obs = []
        for name, v in self.observations:
            try:
                obs.append([name, self.eval_float(v, m)])
            except (ValueError, z3.Z3Exception):
                obs.append([name, None])
        w['observations'] = obs
        return w


def _concrete_eq(a, b, rtol=1e-9):
    if isinstance(a, (str, bytes, type(None))) or isinstance(b, (str, bytes, type(None))):
        return a == b
    try:
        a = builtins.float(a)
        b = builtins.float(b)
    except (TypeError, ValueError):
        return a == b
    if a == b:
        return True
    if math.isnan(a) or math.isnan(b) or math.isinf(a) or math.isinf(b):
        return False
    return abs(a - b) <= rtol * (1 + abs(a) + abs(b))


class ConcreteEngine:
    """Runs the same harness with Python floats taken from an exported model."""
    concrete = True

    def __init__(self, model, mode='concrete', rtol=1e-9):
        self.mode = mode
        self.values = dict(model.get('values', {}))
        self.ufs = model.get('ufs', {})
        self._choices = [tuple(c) for c in model.get('choices', [])]
        self._ci = 0
        self.rtol = rtol
        self.obligations = []
        self.observations = []
        self.stub_calls = {}
        self.assumptions = []
        self.assume_failed = []
        self.seen = set()
        self.notes = []
        self.missing = []

    def real(self, name, lo=None, hi=None, nice=None, lo_open=False, hi_open=False):
        if name in self.seen:
            k = 2
            while f'{name}#{k}' in self.seen:
                k += 1
            name = f'{name}#{k}'
        self.seen.add(name)
        if name not in self.values:
            self.missing.append(name)
            lo_ = 0.0 if lo is None else lo
            hi_ = lo_ + 1.0 if hi is None else hi
            return 0.5 * (lo_ + hi_)
        return builtins.float(self.values[name])

    def bool(self, name):
        if name in self.seen:
            k = 2
            while f'{name}#{k}' in self.seen:
                k += 1
            name = f'{name}#{k}'
        self.seen.add(name)
        return bool(self.values.get(name, False))

    def choice(self, n, name='c'):
        if self._ci < len(self._choices):
            nm, nn, k = self._choices[self._ci]
            self._ci += 1
            if nn != n:
                self.notes.append(f'choice arity drift at {name}: recorded {nm}/{nn}, now {n}')
                k = min(k, n - 1)
            return k
        self.notes.append(f'choice {name} beyond recorded list')
        return 0

    def pick(self, seq, name='pick'):
        seq = list(seq)
        return seq[self.choice(len(seq), name)]

    def uf(self, name, *args):
        spec = self.ufs.get(name)
        args = [builtins.float(a) for a in args]
        if spec is None:
            return _default_uf(name, args)
        for targs, val in spec['table']:
            if len(targs) == len(args) and all(_concrete_eq(x, y, 1e-12) for x, y in zip(targs, args)):
                return val
        d = spec.get('default')
        if len(self.notes) < 8:
            self.notes.append(f'uf-miss {name}{tuple(args)} table-args={[t for t, _ in spec["table"]][:4]}')
        return 0.0 if d is None else d

    def assume(self, cond, text=None):
        if not cond:
            self.assume_failed.append(text or '?')

    def prove(self, label, cond, sig=None, info=None):
        ok = bool(cond)
        self.obligations.append(dict(label=label, sig=sig, status='ok' if ok else 'cex', info=info))
        return ok

    def fail(self, label, sig=None, info=None):
        return self.prove(label, False, sig=sig, info=info)

    def eq(self, a, b):
        return _concrete_eq(a, b, self.rtol)

    def ne(self, a, b):
        return not self.eq(a, b)

    def le(self, a, b):
        return a <= b + self.rtol * (1 + abs(a) + abs(b))

    def ge(self, a, b):
        return self.le(b, a)

    def lt(self, a, b):
        return a < b

    def gt(self, a, b):
        return a > b

    def all(self, conds):
        return builtins.all(bool(c) for c in conds)

    def any(self, conds):
        return builtins.any(bool(c) for c in conds)

    def implies(self, a, b):
        return (not a) or bool(b)

    def ite(self, c, a, b):
        return a if c else b

    def is_zero(self, x):
        return self.eq(x, 0.0)

    def observe(self, name, value):
        try:
            value = builtins.float(value)
        except (TypeError, ValueError):
            pass
        self.observations.append([name, value])

    def stub_called(self, name):
        self.stub_calls[name] = self.stub_calls.get(name, 0) + 1

    def note(self, s):
        self.notes.append(s)

    def run(self, fn):
        _set_current(self)
        rec = dict(status='done')
        try:
            fn(self)
        except PathAbort as e:
            rec['status'] = 'abort'
            rec['why'] = str(e)
        except Exception as e:
            import traceback
            tb = traceback.extract_tb(e.__traceback__)
            where = [f'{f.filename.split("/")[-1]}:{f.lineno}:{f.name}' for f in tb[-4:]]
            self.prove('no-exception', False, sig=type(e).__name__,
                       info=dict(exc=f'{type(e).__name__}: {e}'[:300], where=where))
            rec['status'] = 'exception'
            rec['exc'] = f'{type(e).__name__}: {e}'[:300]
        rec['obligations'] = self.obligations
        rec['observations'] = self.observations
        rec['assume_failed'] = self.assume_failed
        rec['notes'] = self.notes
        rec['missing'] = self.missing
        rec['stub_calls'] = self.stub_calls
        return rec


def _default_uf(name, args):
    """Deterministic smooth stand-in for an uninterpreted function with no table."""
    h = sum((i + 1) * 0.37 * a for i, a in enumerate(args))
    k = (sum(ord(c) for c in name) % 17) + 3
    return k + 0.01 * h + 1e-5 * h * h
