"""Fresh-process replay of counterexamples and path witnesses on UNPATCHED thermosteam
(numba JIT on, real NumPy, builtin float).  The harness function is the same one that was
explored symbolically; it now receives a ConcreteEngine fed from the solver's model."""
import json
import os
import sys

ROOT = os.path.dirname(os.path.dirname(os.path.abspath(__file__)))
if ROOT not in sys.path:
    sys.path.insert(0, ROOT)


def _run(H, item, mode):
    from symx import core, isolation
    groups = H.groups(item.get('tier', 'quick'))
    fn, params = groups[item['group']]
    isolation.restore()
    E = core.ConcreteEngine(item['model'], mode=mode)
    rec = E.run(fn)
    return rec


def main():
    path = sys.argv[sys.argv.index('--batch') + 1]
    with open(path) as f:
        items = json.load(f)
    assert 'NUMBA_DISABLE_JIT' not in os.environ
    import importlib
    from symx import core
    out = []
    harnesses = {}
    for it in items:
        pid = it['property']
        H = harnesses.get(pid)
        if H is None:
            H = harnesses[pid] = importlib.import_module(f'harness.{pid.lower()}')
        try:
            if it['kind'] == 'witness':
                H.setup('concrete')
                rec = _run(H, it, 'concrete')
                exp = it['model'].get('observations', [])
                got = rec['observations']
                why = None
                if rec['status'] != 'done':
                    why = f"status {rec['status']} {rec.get('exc') or rec.get('why')}"
                elif rec['assume_failed']:
                    why = f"assumption failed concretely: {rec['assume_failed'][:3]}"
                elif len(exp) != len(got):
                    why = f'observation count {len(got)} != {len(exp)}'
                else:
                    for (n1, v1), (n2, v2) in zip(exp, got):
                        if n1 != n2:
                            why = f'observation name {n2} != {n1}'
                            break
                        if v1 is None:
                            continue
                        if not core._concrete_eq(v1, v2, 1e-7):
                            why = f'{n1}: symbolic {v1} vs real {v2}'
                            break
                proved = it['model'].get('proved')
                bad = [o for o in rec['obligations'] if o['status'] != 'ok'
                       and (proved is None or [o['label'], o.get('sig')] in proved)]
                if why is None and bad:
                    why = f"obligation {bad[0]['label']} fails concretely on a path where it was proved"
                if why is not None and rec.get('notes'):
                    why += f" notes={rec['notes'][:3]}"
                out.append(dict(match=why is None, why=why))
            else:
                modes = ['real', 'concrete'] if getattr(H, 'REAL_REPLAY', False) else ['concrete']
                res = dict(reproduced=False, why='obligation holds concretely')
                for mode in modes:
                    H.setup(mode)
                    rec = _run(H, it, mode)
                    hit = [o for o in rec['obligations'] if o['status'] == 'cex' and o['label'] == it['label']
                           and (o.get('sig') == it.get('sig'))]
                    if hit and rec['assume_failed']:
                        res['why'] = f"mode {mode}: an assumption of the path does not hold concretely: {rec['assume_failed'][:2]}"
                        continue
                    if hit:
                        res = dict(reproduced=True, mode=mode,
                                   detail=dict(info=hit[0].get('info'), status=rec['status'], exc=rec.get('exc'),
                                               observations=rec['observations'][:12],
                                               assume_failed=rec['assume_failed'][:3]))
                        break
                    other = [o for o in rec['obligations'] if o['status'] == 'cex']
                    if other and not rec['assume_failed'] and rec['status'] == 'done':
                        # the concrete run of this input on the real code fails ANOTHER obligation (e.g. the symbolic
                        # run stopped at an exception that real arithmetic does not raise): a real violation all the
                        # same, reported under the obligation that fails concretely
                        res = dict(reproduced=True, mode=mode, label=other[0]['label'], sig=other[0].get('sig'),
                                   detail=dict(info=other[0].get('info'), status=rec['status'], exc=None,
                                               observations=rec['observations'][:12], assume_failed=[],
                                               symbolic_obligation=[it['label'], it.get('sig')]))
                        break
                    res['why'] = (f"mode {mode}: status={rec['status']} {rec.get('exc') or ''} failing="
                                  f"{[(o['label'], o.get('sig')) for o in rec['obligations'] if o['status'] == 'cex'][:4]} "
                                  f"assume_failed={rec['assume_failed'][:2]} notes={rec['notes'][:2]}")
                out.append(res)
        except BaseException as e:       # noqa
            import traceback
            out.append(dict(error=f'{type(e).__name__}: {e}', tb=traceback.format_exc()[-1500:]))
    with open(path + '.out', 'w') as f:
        json.dump(out, f, default=str)


if __name__ == '__main__':
    main()
