"""Snapshot / restore of thermosteam's process-global memo tables between paths, so that
no path sees state (in particular symbolic objects) left by another path."""

_tracked = []      # (container, snapshot, inner [(container, snapshot)])


def _snap(c):
    if isinstance(c, dict):
        return dict(c)
    if isinstance(c, list):
        return list(c)
    if isinstance(c, set):
        return set(c)
    raise TypeError(type(c))


def _restore(c, s):
    if isinstance(c, dict):
        if c.keys() != s.keys() or any(c[k] is not s[k] for k in s):
            c.clear()
            c.update(s)
    elif isinstance(c, list):
        if c != s:
            c[:] = s
    else:
        if c != s:
            c.clear()
            c.update(s)


def track(container, nested=False):
    for t in _tracked:
        if t[0] is container:
            return
    inner = []
    if nested and isinstance(container, dict):
        for v in container.values():
            if isinstance(v, (dict, list, set)):
                inner.append((v, _snap(v)))
    _tracked.append((container, _snap(container), inner))


def resnap():
    """Re-take all snapshots (after harness setup has populated caches on purpose)."""
    for i, (c, s, inner) in enumerate(_tracked):
        inner = []
        if isinstance(c, dict):
            for v in c.values():
                if isinstance(v, dict):
                    inner.append((v, _snap(v)))
        _tracked[i] = (c, _snap(c), inner)


def restore():
    for c, s, inner in _tracked:
        _restore(c, s)
        for ic, isnap in inner:
            _restore(ic, isnap)


def track_defaults():
    import importlib
    import thermosteam as tmo
    ix = importlib.import_module('thermosteam.indexer')
    ph = importlib.import_module('thermosteam._phase')
    st = importlib.import_module('thermosteam._stream')
    uom = importlib.import_module('thermosteam.units_of_measure')
    nw = importlib.import_module('thermosteam.network')
    bp = importlib.import_module('thermosteam.equilibrium.bubble_point')
    dp = importlib.import_module('thermosteam.equilibrium.dew_point')
    ac = importlib.import_module('thermosteam.equilibrium.activity_coefficients')
    track(ix.MaterialIndexer._index_caches, nested=True)
    track(ph.PhaseIndexer._index_cache)
    if hasattr(ph, 'LockedPhase') and hasattr(ph.LockedPhase, '_cache'):
        track(ph.LockedPhase._cache)
    track(st.Stream._flow_cache)
    for cls in vars(uom).values():
        if isinstance(cls, type) and isinstance(getattr(cls, '_cache', None), dict):
            track(cls._cache)
    track(nw.AbstractStream.feed_priorities)
    track(nw.disjunctions)
    for mod in (bp, dp, ac):
        for cls in vars(mod).values():
            if isinstance(cls, type) and isinstance(cls.__dict__.get('_cached', None), dict):
                track(cls._cached)
    # registries of the main flowsheet
    try:
        reg = tmo.settings  # noqa: F841
    except Exception:
        pass
