"""NumPy / math shims installed into thermosteam modules (by rebinding their module
globals, never by editing /repo) so that symbolic numbers survive array code.

`Shim` forwards everything to real NumPy unless a symbolic value is involved, in which
case an object-dtype `OArr` is produced.  A missing entry point shows up as a TypeError in
the harness (harness error), never as a silent concretisation.
"""
import builtins
import math as _math

import numpy as np
import z3

from . import core
from .core import SymNum, SymBool, is_sym, zval


def _has_sym(x, depth=0):
    if is_sym(x):
        return True
    if isinstance(x, np.ndarray):
        if x.dtype != object:
            return False
        return builtins.any(is_sym(i) for i in x.flat)
    if isinstance(x, (list, tuple)) and depth < 3:
        return builtins.any(_has_sym(i, depth + 1) for i in x)
    return False


class OArr(np.ndarray):
    """object ndarray whose boolean-mask get/set accepts symbolic booleans (forks)."""
    __array_priority__ = 100

    def __new__(cls, a):
        return np.asarray(a, dtype=object).view(cls)

    @staticmethod
    def _fix(k):
        if isinstance(k, np.ndarray) and k.dtype == object and k.size:
            f = k.flat[0]
            if isinstance(f, (SymBool, bool, np.bool_)):
                return np.array([bool(i) for i in k.flat], dtype=bool).reshape(k.shape)
        if isinstance(k, tuple):
            return tuple(OArr._fix(i) for i in k)
        return k

    def __getitem__(self, k):
        return np.ndarray.__getitem__(self, OArr._fix(k))

    def __setitem__(self, k, v):
        return np.ndarray.__setitem__(self, OArr._fix(k), v)

    def any(self, axis=None, **kw):
        if axis is None:
            return core.current().any([i != 0 if isinstance(i, SymNum) else i for i in self.flat]) \
                if _has_sym(self) else bool(np.asarray(self, dtype=object).view(np.ndarray).astype(bool).any())
        return np.ndarray.any(self, axis=axis, **kw)

    def all(self, axis=None, **kw):
        if axis is None:
            return core.current().all([i != 0 if isinstance(i, SymNum) else i for i in self.flat]) \
                if _has_sym(self) else bool(np.asarray(self, dtype=object).view(np.ndarray).astype(bool).all())
        return np.ndarray.all(self, axis=axis, **kw)

    def astype(self, dtype, *a, **k):
        if dtype in (float, np.float64, 'float', 'float64') and _has_sym(self):
            return self.copy()
        if dtype in (bool, np.bool_) and _has_sym(self):
            return np.array([bool(i) for i in self.flat], dtype=bool).reshape(self.shape)
        return np.ndarray.astype(self, dtype, *a, **k).view(np.ndarray)

    def max(self, *a, **k):
        if a or k:
            return np.ndarray.max(self, *a, **k)
        return _reduce(self.flat, lambda x, y: x if x >= y else y)

    def min(self, *a, **k):
        if a or k:
            return np.ndarray.min(self, *a, **k)
        return _reduce(self.flat, lambda x, y: x if x <= y else y)

    def argmax(self, *a, **k):
        best = 0
        flat = list(self.flat)
        for i in range(1, len(flat)):
            if flat[i] > flat[best]:
                best = i
        return best

    def argmin(self, *a, **k):
        best = 0
        flat = list(self.flat)
        for i in range(1, len(flat)):
            if flat[i] < flat[best]:
                best = i
        return best


def _reduce(it, f):
    it = iter(it)
    acc = next(it)
    for x in it:
        acc = f(acc, x)
    return acc


def oarr(values):
    a = np.empty(len(values), dtype=object)
    for i, v in enumerate(values):
        a[i] = v
    return a.view(OArr)


def _map(f, x):
    if isinstance(x, np.ndarray) and x.ndim:
        out = np.empty(x.shape, dtype=object)
        for idx, v in np.ndenumerate(x):
            out[idx] = f(v)
        return out.view(OArr)
    if isinstance(x, (list, tuple)):
        return oarr([f(v) for v in x])
    return f(x)


def s_abs(x):
    return abs(x)


def s_exp(x):
    if isinstance(x, SymNum):
        return core.current().uf('exp', x)
    return _math.exp(x)


def s_log(x):
    if isinstance(x, SymNum):
        return core.current().uf('ln', x)
    return _math.log(x)


def s_sqrt(x):
    if isinstance(x, SymNum):
        return core.current().uf('sqrt', x)
    return _math.sqrt(x)


_FLOATS = (None, float, np.float64, core.symfloat)


def _nd(dtype):
    return float if dtype is core.symfloat else dtype


class Shim:
    """Stands in for the `numpy` module object (`module.np = Shim()`)."""

    def __init__(self, float_zeros=True):
        self.float_zeros = float_zeros      # zeros()/ones() produce object arrays

    def __getattr__(self, n):
        return getattr(np, n)

    # -- constructors -------------------------------------------------------
    def zeros(self, shape, dtype=None, **kw):
        if self.float_zeros and dtype in _FLOATS:
            a = np.empty(shape, dtype=object)
            a[...] = 0.0
            return a.view(OArr)
        return np.zeros(shape, dtype=_nd(dtype), **kw)

    def ones(self, shape, dtype=None, **kw):
        if self.float_zeros and dtype in _FLOATS:
            a = np.empty(shape, dtype=object)
            a[...] = 1.0
            return a.view(OArr)
        return np.ones(shape, dtype=_nd(dtype), **kw)

    def empty(self, shape, dtype=None, **kw):
        if self.float_zeros and dtype in _FLOATS:
            a = np.empty(shape, dtype=object)
            a[...] = 0.0
            return a.view(OArr)
        return np.empty(shape, dtype=_nd(dtype), **kw)

    def zeros_like(self, a, dtype=None, **kw):
        if isinstance(a, np.ndarray) and (a.dtype == object or (self.float_zeros and a.dtype == float)) and dtype in _FLOATS:
            out = np.empty(a.shape, dtype=object)
            out[...] = 0.0
            return out.view(OArr)
        return np.zeros_like(a, dtype=_nd(dtype), **kw)

    def ones_like(self, a, dtype=None, **kw):
        if isinstance(a, np.ndarray) and (a.dtype == object or (self.float_zeros and a.dtype == float)) and dtype in _FLOATS:
            out = np.empty(a.shape, dtype=object)
            out[...] = 1.0
            return out.view(OArr)
        return np.ones_like(a, dtype=_nd(dtype), **kw)

    def full(self, shape, fill_value, dtype=None, **kw):
        if is_sym(fill_value):
            a = np.empty(shape, dtype=object)
            a[...] = fill_value
            return a.view(OArr)
        return np.full(shape, fill_value, dtype=_nd(dtype), **kw)

    def array(self, obj, dtype=None, **kw):
        if is_sym(obj):
            return obj
        if dtype in _FLOATS + (object,) and _has_sym(obj):
            if isinstance(obj, np.ndarray):
                return obj.copy().view(OArr)
            return np.array(obj, dtype=object).view(OArr)
        if isinstance(obj, OArr) and dtype in _FLOATS:
            return obj.copy()
        return np.array(obj, dtype=_nd(dtype), **kw)

    def asarray(self, obj, dtype=None, **kw):
        if is_sym(obj):
            return obj          # a symbolic scalar stands for the 0-d array
        if dtype in _FLOATS + (object,):
            if isinstance(obj, OArr):
                return obj
            if _has_sym(obj):
                if isinstance(obj, np.ndarray):
                    return obj.view(OArr)
                return np.array(obj, dtype=object).view(OArr)
        return np.asarray(obj, dtype=_nd(dtype), **kw)

    def fromiter(self, it, dtype=None, count=-1):
        lst = list(it)
        if _has_sym(lst):
            return oarr(lst)
        return np.fromiter(lst, dtype=_nd(dtype), count=count)

    # -- elementwise --------------------------------------------------------
    def abs(self, x):
        if _has_sym(x) or isinstance(x, OArr):
            return _map(abs, x)
        return np.abs(x)
    absolute = abs

    def exp(self, x):
        if _has_sym(x):
            return _map(s_exp, x)
        if isinstance(x, OArr):
            return _map(s_exp, x)
        return np.exp(x)

    def log(self, x):
        if _has_sym(x) or isinstance(x, OArr):
            return _map(s_log, x)
        return np.log(x)

    def sqrt(self, x):
        if _has_sym(x) or isinstance(x, OArr):
            return _map(s_sqrt, x)
        return np.sqrt(x)

    def isfinite(self, x):
        if _has_sym(x) or isinstance(x, OArr):
            return _map(lambda v: True if is_sym(v) else bool(np.isfinite(v)), x)
        return np.isfinite(x)

    def isnan(self, x):
        if _has_sym(x) or isinstance(x, OArr):
            return _map(lambda v: False if is_sym(v) else bool(np.isnan(v)), x)
        return np.isnan(x)

    def where(self, cond, *args):
        if not args:
            if isinstance(cond, np.ndarray) and cond.dtype == object:
                cond = np.array([bool(i) for i in cond.flat], dtype=bool).reshape(cond.shape)
            return np.where(cond)
        a, b = args
        if _has_sym(cond) or _has_sym(a) or _has_sym(b) or builtins.any(isinstance(i, OArr) for i in (cond, a, b)):
            cond_, a_, b_ = np.broadcast_arrays(np.asarray(cond, dtype=object), np.asarray(a, dtype=object),
                                               np.asarray(b, dtype=object))
            out = np.empty(cond_.shape, dtype=object)
            for idx in np.ndindex(cond_.shape):
                out[idx] = a_[idx] if cond_[idx] else b_[idx]
            return out.view(OArr)
        return np.where(cond, a, b)

    def maximum(self, a, b):
        if _has_sym(a) or _has_sym(b):
            return _binmap(lambda x, y: x if x >= y else y, a, b)
        return np.maximum(a, b)

    def minimum(self, a, b):
        if _has_sym(a) or _has_sym(b):
            return _binmap(lambda x, y: x if x <= y else y, a, b)
        return np.minimum(a, b)

    def clip(self, a, lo, hi, out=None):
        if _has_sym(a) or _has_sym(lo) or _has_sym(hi):
            r = _binmap(lambda x, y: x if x >= y else y, a, lo)
            r = _binmap(lambda x, y: x if x <= y else y, r, hi)
            if out is not None:
                out[...] = r
                return out
            return r
        return np.clip(a, lo, hi, out=out)

    def dot(self, a, b):
        return np.dot(a, b)

    def sum(self, a, *args, **kw):
        return np.sum(a, *args, **kw)

    def logical_and(self, a, b):
        if _has_sym(a) or _has_sym(b):
            return _binmap(lambda x, y: x & y if is_sym(x) or is_sym(y) else (bool(x) and bool(y)), a, b)
        return np.logical_and(a, b)

    def logical_or(self, a, b):
        if _has_sym(a) or _has_sym(b):
            return _binmap(lambda x, y: x | y if is_sym(x) or is_sym(y) else (bool(x) or bool(y)), a, b)
        return np.logical_or(a, b)

    def logical_not(self, a):
        if _has_sym(a):
            return _map(lambda x: ~x if isinstance(x, SymBool) else (x == 0 if isinstance(x, SymNum) else not x), a)
        return np.logical_not(a)

    def any(self, a, *args, **kw):
        if isinstance(a, OArr) and not args and not kw:
            return a.any()
        return np.any(a, *args, **kw)

    def all(self, a, *args, **kw):
        if isinstance(a, OArr) and not args and not kw:
            return a.all()
        return np.all(a, *args, **kw)

    def isscalar(self, x):
        return True if is_sym(x) else np.isscalar(x)

    def ndim(self, x):
        return 0 if is_sym(x) else np.ndim(x)


def _binmap(f, a, b):
    if not isinstance(a, np.ndarray) and not isinstance(b, np.ndarray) \
            and not isinstance(a, (list, tuple)) and not isinstance(b, (list, tuple)):
        return f(a, b)
    a_, b_ = np.broadcast_arrays(np.asarray(a, dtype=object), np.asarray(b, dtype=object))
    out = np.empty(a_.shape, dtype=object)
    for idx in np.ndindex(a_.shape):
        out[idx] = f(a_[idx], b_[idx])
    return out.view(OArr)


class MathShim:
    """Stands in for the `math` module."""
    def __getattr__(self, n):
        return getattr(_math, n)
    exp = staticmethod(s_exp)
    log = staticmethod(s_log)
    sqrt = staticmethod(s_sqrt)

    @staticmethod
    def isfinite(x):
        return True if is_sym(x) else _math.isfinite(x)

    @staticmethod
    def isnan(x):
        return False if is_sym(x) else _math.isnan(x)

    @staticmethod
    def fabs(x):
        return abs(x)


def patch_module(mod, np_shim=None, float_=True, math_=True, names=()):
    """Install shims into a module's globals; returns list of (mod, name, old) for undo."""
    undo = []

    def setg(name, val):
        undo.append((mod, name, mod.__dict__.get(name, _MISSING)))
        setattr(mod, name, val)
    if float_:
        setg('float', core.symfloat)
    if np_shim is not None and 'np' in mod.__dict__:
        setg('np', np_shim)
    if math_:
        if 'math' in mod.__dict__:
            setg('math', MathShim())
        for n, f in (('exp', s_exp), ('log', s_log), ('ln', s_log), ('sqrt', s_sqrt)):
            if n in mod.__dict__ and mod.__dict__[n] in (_math.exp, _math.log, _math.sqrt, np.exp, np.log, np.sqrt):
                setg(n, f)
    return undo


_MISSING = object()


def unpatch(undo):
    for mod, name, old in reversed(undo):
        if old is _MISSING:
            try:
                delattr(mod, name)
            except AttributeError:
                pass
        else:
            setattr(mod, name, old)
