from .core import *   # noqa
