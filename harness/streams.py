"""Stream fixtures shared by the stream-level harnesses (C01, C02, C11-C14, C20 ...):
property packages built once per process and direct injection of symbolic flows."""
import thermosteam as tmo
import z3

from symx import core

from symx import isolation
from . import common as C

_pk = {}

SYM_MODULES = ['thermosteam.base.sparse', 'thermosteam.indexer', 'thermosteam._stream',
               'thermosteam._multi_stream', 'thermosteam._thermal_condition',
               'thermosteam.base.dictionary_view']


def packages():
    """A: Water, Ethanol, Octane.   B: Octane, Water (subset of A in another order).
    C: Ethanol, Water, Octane (same set, another order)."""
    if not _pk:
        for name, ids in (('A', ['Water', 'Ethanol', 'Octane']), ('B', ['Octane', 'Water']),
                          ('C', ['Ethanol', 'Water', 'Octane']),
                          ('A2', ['Water', 'Ethanol']), ('B2', ['Ethanol', 'Water']), ('D1', ['Ethanol'])):
            chems = tmo.Chemicals(ids, cache=True)
            tmo.settings.set_thermo(chems, cache=True)
            th = tmo.settings.get_thermo()
            _pk[name] = th
            isolation.track(th.chemicals._index_cache)
        tmo.settings.set_thermo(_pk['A'])
    return _pk


def cas_map(src, dst):
    """positions in dst chemicals for each chemical of src (by CAS), None if absent"""
    d = {c: i for i, c in enumerate(dst.chemicals.CASs)}
    return [d.get(c) for c in src.chemicals.CASs]


def sym_flows(E, name, n, presence=None, positive=True):
    """Flow vector with an explicit presence pattern: present => symbolic > 0 (or != 0)."""
    out = []
    for i in range(n):
        p = presence[i] if presence is not None else E.choice(2, f'{name}[{i}]?')
        if p:
            x = E.real(f'{name}{i}', nice=(0.5, 60))
            E.assume(x > 0 if positive else x != 0)
            out.append(x)
        else:
            out.append(0.0)
    return out


def is_zero(x):
    """syntactically zero (python 0.0 or a symbolic term that simplifies to the numeral 0)"""
    if isinstance(x, (int, float)):
        return x == 0
    if isinstance(x, core.SymNum):
        v = z3.simplify(x.z)
        return z3.is_rational_value(v) and v.numerator_as_long() == 0
    return False


def inject(vec, flows, reverse=False):
    """store the non-zero flows; `reverse` inserts them in descending index order (the insertion
    order of the sparse dict is part of a stream's history and drives e.g. index_overlap keys)"""
    d = vec.dct
    d.clear()
    items = [(i, x) for i, x in enumerate(flows) if not is_zero(x)]
    for i, x in (reversed(items) if reverse else items):
        d[i] = x


def mk_stream(E, name, thermo, phase='l', flows=None, presence=None, vary_order=False):
    s = tmo.Stream(None, thermo=thermo, phase=phase)
    n = thermo.chemicals.size
    if flows is None:
        flows = sym_flows(E, name, n, presence)
    rev = False
    if vary_order and sum(1 for x in flows if not is_zero(x)) >= 2:
        rev = bool(E.choice(2, f'{name}-inserted-in-reverse-order'))
    inject(s.imol.data, flows, rev)
    return s, flows


def mk_multistream(E, name, thermo, phases='lg', flows=None, presence=None, vary_order=False):
    ms = tmo.MultiStream(None, thermo=thermo, phases=phases)
    n = thermo.chemicals.size
    order = ms.imol._phases
    out = {}
    for r, ph in enumerate(order):
        f = flows[ph] if flows is not None else sym_flows(E, f'{name}{ph}', n, presence)
        rev = False
        if vary_order and r == 0 and sum(1 for x in f if not is_zero(x)) >= 2:
            rev = bool(E.choice(2, f'{name}{ph}-inserted-in-reverse-order'))
        inject(ms.imol.data.rows[r], f, rev)
        out[ph] = f
    return ms, out


def totals(s):
    """per-chemical totals across phases as a list (symbolic or float)"""
    data = s.imol.data
    n = s.chemicals.size
    if hasattr(data, 'rows'):
        return [sum([r.dct.get(i, 0.0) for r in data.rows]) for i in range(n)]
    return [data.dct.get(i, 0.0) for i in range(n)]


def by_phase(s):
    data = s.imol.data
    n = s.chemicals.size
    if hasattr(data, 'rows'):
        return {ph: [r.dct.get(i, 0.0) for i in range(n)] for ph, r in zip(s.imol._phases, data.rows)}
    return {s.phase: [data.dct.get(i, 0.0) for i in range(n)]}


def check_invariant(E, s, label, sig=None):
    C.check_sv_invariant(E, s.imol.data, label, sig=sig)
