"""C19 — the simulation order derived from a flowsheet is complete and follows material flow.

Structural.  Inputs = every connected acyclic flowsheet on n units (z3 AllSAT over an edge /
rank encoding; the final unsat certifies completeness within the bound), optionally with
back edges, times every order in which the unit list can be supplied; the real
Network.from_units / from_feedstock / fill_path / join_* / sort run on real AbstractUnit
objects.  The solver contributes generation and exhaustiveness, not arithmetic."""
import itertools
import warnings

import thermosteam as tmo
import z3

from symx import core
from . import common as C

ID = 'C19'
REAL_REPLAY = False
STUBS = []
ASSUMPTIONS = ['units have variable-size port lists (1-3 inlets/outlets arise from the graph); a unit without inlet gets a feed, without outlet a product',
               'set iteration order inside thermosteam depends on object addresses: a violation is replayed in a fresh process and reported only if it reproduces there']
OUTSIDE = ['more than 4 units in every labelling (quick) / 5 (thorough); 6 units only in topological labellings with at most 2 (quick) / 3 (thorough) ports per side', 'more than 6 units', 'more than 3 back edges', 'auxiliary units, interaction units, systems']
BOUNDS = {'quick': dict(units='2..4 (+ 6: topologically labelled DAGs, <= 7 edges, <= 2 ports per side, rotations + reversal of the unit list)', orders='all permutations', back_edges='0..1 (2 back edges on 3 units)'),
          'thorough': dict(units='2..5 (5: every labelled DAG, rotations + reversal of the unit list; with a back edge: <= 6 edges) + 6 (topological labellings, <= 3 ports per side)', orders='all permutations (<=4 units)', back_edges='0..3 (3: rotations + reversal)')}
_cls = {}
_graphs = {}


def setup(mode):
    C.begin_setup(mode)
    warnings.simplefilter('ignore')
    if not _cls:
        tmo.settings.set_thermo(tmo.Chemicals([]))

        class U(tmo.AbstractUnit):
            _N_ins = 1
            _N_outs = 1
            _ins_size_is_fixed = False
            _outs_size_is_fixed = False
        _cls['U'] = U


def connected(n, edges):
    adj = {i: set() for i in range(n)}
    for a, b in edges:
        adj[a].add(b)
        adj[b].add(a)
    seen, st = {0}, [0]
    while st:
        x = st.pop()
        for y in adj[x]:
            if y not in seen:
                seen.add(y)
                st.append(y)
    return len(seen) == n


def dags(n, max_edges=None, max_deg=3, canonical=False):
    """all connected DAGs on n labelled nodes with in/out degree <= max_deg.
    z3 AllSAT (pure Boolean: one variable per pair i < j, cardinality constraints for the degrees and the edge
    budget; the final unsat certifies that the enumeration is complete) produces every TOPOLOGICALLY LABELLED
    DAG (edges i -> j with i < j).  canonical=True returns those; otherwise every relabelling of them is taken -
    every labelled DAG has a topological order, so this is exactly the set of labelled DAGs within the bound.
    The orders in which the units are SUPPLIED are varied separately by the caller."""
    key = (n, max_edges, max_deg, canonical)
    if key in _graphs:
        return _graphs[key]
    ckey = (n, max_edges, max_deg, True)
    if ckey not in _graphs:
        s = z3.Solver()
        pairs = [(i, j) for i in range(n) for j in range(i + 1, n)]
        e = {p: z3.Bool(f'e{p[0]}{p[1]}') for p in pairs}
        for i in range(n):
            outs = [e[p] for p in pairs if p[0] == i]
            ins = [e[p] for p in pairs if p[1] == i]
            if len(outs) > max_deg:
                s.add(z3.AtMost(*outs, max_deg))
            if len(ins) > max_deg:
                s.add(z3.AtMost(*ins, max_deg))
        if max_edges is not None and len(pairs) > max_edges:
            s.add(z3.AtMost(*e.values(), max_edges))
        s.add(z3.AtLeast(*e.values(), n - 1))          # a connected graph has at least n - 1 edges
        vs = [e[p] for p in pairs]
        out = []
        # cube-and-enumerate: the first k variables are fixed in turn (2^k cubes, together exhaustive), the
        # blocking clauses of a cube are popped with it; every cube ends with unsat
        k = min(6, max(0, len(vs) - 4))
        for cube in itertools.product([False, True], repeat=k):
            s.push()
            s.add(*[v if b else z3.Not(v) for v, b in zip(vs[:k], cube)])
            while s.check() == z3.sat:
                m = s.model()
                val = [bool(m.eval(v, model_completion=True)) for v in vs]
                s.add(z3.Or([z3.Not(v) if b else v for v, b in zip(vs, val)]))
                edges = tuple(p for p, b in zip(pairs, val) if b)
                if connected(n, edges):
                    out.append(edges)
            s.pop()
        out.sort()
        _graphs[ckey] = out
    if canonical:
        return _graphs[ckey]
    labelled = set()
    for edges in _graphs[ckey]:
        for perm in itertools.permutations(range(n)):
            labelled.add(tuple(sorted((perm[a], perm[b]) for a, b in edges)))
    _graphs[key] = sorted(labelled)
    return _graphs[key]


def fingerprint(n, edges, back, perm):
    """identifies one (flowsheet, back edges, order of the unit list) case"""
    import hashlib
    import json
    key = json.dumps([n, sorted(map(list, edges)), sorted(map(list, back)), list(perm)])
    return hashlib.sha1(key.encode()).hexdigest()[:12]


_known_cases = {}


def known_cases():
    """fingerprints of the cases listed in findings/C19-known-cases.json (the open findings of C19)"""
    if not _known_cases:
        import json
        import os
        p = os.path.join(os.path.dirname(os.path.dirname(os.path.abspath(__file__))), 'findings', 'C19-known-cases.json')
        d = json.load(open(p)) if os.path.exists(p) else {}
        _known_cases['duplicate'] = set(d.get('duplicate', []))
        _known_cases['ValueError'] = set(d.get('ValueError', []))
    return _known_cases


def reach(n, edges):
    R = {i: {i} for i in range(n)}
    changed = True
    while changed:
        changed = False
        for a, b in edges:
            new = R[b] - R[a]
            if new:
                R[a] |= new
                changed = True
    return R


def build(n, edges):
    U = _cls['U']
    us = [U(None, ins=None, outs=None) for _ in range(n)]
    for u in us:
        u.ins.clear()
        u.outs.clear()
    streams = {}
    for (a, b) in edges:
        s = tmo.AbstractStream(None)
        us[a].outs.append(s)
        us[b].ins.append(s)
        streams[(a, b)] = s
    for u in us:
        if not len(u.ins):
            u.ins.append(tmo.AbstractStream(None))
        if not len(u.outs):
            u.outs.append(tmo.AbstractStream(None))
    return us, streams


def flat(net):
    Network = tmo.network.Network
    out = []
    for i in net.path:
        if isinstance(i, Network):
            out.extend(flat(i))
        else:
            out.append(i)
    return out


def loops(net, acc=None):
    """unit sets of every (sub)network that reports a recycle"""
    Network = tmo.network.Network
    acc = [] if acc is None else acc
    if net.recycle:
        acc.append(set(flat(net)))
    for i in net.path:
        if isinstance(i, Network):
            loops(i, acc)
    return acc


def orders(E, n, all_perms):
    if all_perms:
        perms = list(itertools.permutations(range(n)))
    else:
        perms = [tuple((i + k) % n for i in range(n)) for k in range(n)] + [tuple(reversed(range(n)))]
    return perms[E.choice(len(perms), 'unit-order')]


def g_acyclic(ns, all_perms=True, max_edges=None, max_deg=3, canonical=False):
    def run(E):
        Network = tmo.network.Network
        n = E.pick(ns, 'n-units')
        G = dags(n, max_edges, max_deg, canonical)
        edges = G[E.choice(len(G), 'flowsheet')]
        perm = orders(E, n, all_perms)
        us, streams = build(n, edges)
        net = Network.from_units([us[i] for i in perm])
        path = flat(net)
        sig = f'n={n}'
        E.prove('path-contains-exactly-the-given-units', len(path) == n and set(path) == set(us), sig=sig,
                info=dict(edges=list(edges), order=list(perm)))
        pos = {u: k for k, u in enumerate(path)}
        ok = all(us[a] in pos and us[b] in pos and pos[us[a]] < pos[us[b]] for a, b in edges)
        E.prove('every-unit-after-all-units-that-feed-it', ok, sig=sig, info=dict(edges=list(edges), order=list(perm),
                                                                                 path=[us.index(u) for u in path if u in us]))
        E.prove('no-recycle-reported-for-acyclic-flowsheet', not net.get_all_recycles(), sig=sig, info=dict(edges=list(edges), order=list(perm)))
    return run


def g_cyclic(ns, n_back_choices, all_perms=True, max_edges=None):
    def run(E):
        Network = tmo.network.Network
        n = E.pick(ns, 'n-units')
        G = dags(n, max_edges)
        edges = list(G[E.choice(len(G), 'flowsheet')])
        R = reach(n, edges)
        # back edges: from a unit to one of its (strict) ancestors
        cands = [(b, a) for a in range(n) for b in R[a] if b != a and (b, a) not in edges]
        nb = E.pick(n_back_choices, 'n-back-edges')
        if len(cands) < nb:
            raise core.PathAbort('not enough candidate back edges')
        combos = list(itertools.combinations(cands, nb))
        back = list(combos[E.choice(len(combos), 'back-edges')])
        # degree bound
        deg_out = {i: 0 for i in range(n)}
        deg_in = {i: 0 for i in range(n)}
        for a, b in edges + back:
            deg_out[a] += 1
            deg_in[b] += 1
        if max(deg_out.values()) > 3 or max(deg_in.values()) > 3:
            raise core.PathAbort('more than 3 ports on a side')
        perm = orders(E, n, all_perms)
        # the acyclic flowsheet keeps its feeds and products (every unit still reaches a product);
        # the back edges are added on top
        us, streams = build(n, edges)
        for (a, b) in back:
            s = tmo.AbstractStream(None)
            us[a].outs.append(s)
            us[b].ins.append(s)
            streams[(a, b)] = s
        sig = f'n={n}/back={nb}'
        info = dict(edges=edges, back=back, order=list(perm))
        fp = fingerprint(n, edges, back, perm)
        try:
            net = Network.from_units([us[i] for i in perm])
        except ValueError as e:
            if 'networks must have units in common to join' not in str(e):
                raise
            # an open finding lists the exact cases in which this happens on the unchanged tree; any other case is new
            E.prove('network-is-built', False, sig='ValueError/listed-case' if fp in known_cases()['ValueError'] else f'ValueError/new-case/{fp}',
                    info=dict(info, exc=str(e)))
            return
        path = flat(net)
        E.prove('path-contains-exactly-the-given-units', set(path) == set(us), sig=sig, info=info)
        dup = len(path) != len(set(path))
        E.prove('no-unit-listed-twice-in-the-path', not dup,
                sig=('listed-case' if fp in known_cases()['duplicate'] else f'new-case/{fp}') if dup else sig,
                info=dict(info, path=[us.index(u) for u in path if u in us]))
        rec = net.get_all_recycles()
        E.prove('at-least-one-recycle-reported-for-cyclic-flowsheet', len(rec) >= 1, sig=sig, info=info)
        if len(path) == n and set(path) == set(us):
            pos = {u: k for k, u in enumerate(path)}
            L = loops(net)
            bad = []
            for (a, b), s in streams.items():
                if pos[us[a]] >= pos[us[b]]:
                    if not any(us[a] in l and us[b] in l for l in L):
                        bad.append((a, b))
            E.prove('backward-streams-join-units-of-a-common-recycle-loop', not bad, sig=sig, info=dict(info, backward_outside_loops=bad,
                                                                                                   path=[us.index(u) for u in path]))
    return run


def groups(tier):
    q = tier == 'quick'
    # enumerate the flowsheets once, before the worker processes are forked
    dags(2), dags(3), dags(4), dags(6, 7 if q else None, 2 if q else 3, True)
    if not q:
        dags(5, 6), dags(5, None)
    g = {
        'acyclic': (g_acyclic([2, 3, 4]), dict(max_paths=5000000, witnesses=4)),
        'cyclic-1-back-edge': (g_cyclic([2, 3] if q else [2, 3, 4], [1]), dict(max_paths=5000000, witnesses=4)),
        'cyclic-2-back-edges': (g_cyclic([3] if q else [3, 4], [2], all_perms=True), dict(max_paths=20000000, witnesses=4)),
    }
    # 6 units: topologically labelled flowsheets only (the outlet order of a unit follows the labels), unit list
    # supplied in every rotation and reversed
    g['acyclic-6-units'] = (g_acyclic([6], all_perms=False, max_edges=7 if q else None, max_deg=2 if q else 3, canonical=True),
                            dict(max_paths=20000000, witnesses=4))
    if not q:
        g['acyclic-5-units'] = (g_acyclic([5], all_perms=False, max_edges=None), dict(max_paths=20000000, witnesses=4))
        g['cyclic-1-back-edge-5-units'] = (g_cyclic([5], [1], all_perms=False, max_edges=6), dict(max_paths=20000000, witnesses=4))
        g['cyclic-3-back-edges'] = (g_cyclic([3, 4], [3], all_perms=False), dict(max_paths=20000000, witnesses=4))
    return g
