"""Shared harness plumbing: patch management, array construction, sparse helpers."""
import importlib
import os

import numpy as np

from symx import core, shim, isolation

_undo = []
_mode = None
NP = shim.Shim()
_tracked_defaults = False


def mod(name):
    return importlib.import_module(name)


def begin_setup(mode):
    """Undo patches of a previous setup() in this process; returns True if sym."""
    global _mode, _tracked_defaults
    shim.unpatch(_undo)
    del _undo[:]
    _mode = mode
    if not _tracked_defaults:
        isolation.track_defaults()
        _tracked_defaults = True
    return mode == 'sym'


def patch(modnames, np_shim=True, float_=True, math_=True):
    for n in modnames:
        m = mod(n)
        _undo.extend(shim.patch_module(m, NP if np_shim else None, float_, math_))


def setg(modname, name, value):
    """Set an attribute of a module or class (undone by the next begin_setup)."""
    m = mod(modname) if isinstance(modname, str) else modname
    _undo.append((m, name, m.__dict__.get(name, shim._MISSING)))
    setattr(m, name, value)


def array(E, values):
    """1-d / 2-d array of the given values: object OArr symbolically, float ndarray concretely."""
    if E.concrete:
        return np.array(values, dtype=float)
    a = np.array(values, dtype=object)
    return a.view(shim.OArr)


def check_sv_invariant(E, v, label, sig=None):
    """Stored entries are non-zero and keys lie in [0, size)."""
    sp = mod('thermosteam.base.sparse')
    rows = v.rows if isinstance(v, sp.SparseArray) else [v]
    ok_keys = True
    conds = []
    for r in rows:
        if isinstance(r, sp.SparseLogicalVector):
            ok_keys = ok_keys and all(isinstance(i, (int, np.integer)) and 0 <= i < r.size for i in r.set)
            continue
        for k, x in r.dct.items():
            ok_keys = ok_keys and isinstance(k, (int, np.integer)) and 0 <= k < r.size
            conds.append(E.ne(x, 0.0) if not E.concrete else (x != 0))
    E.prove(label + ':keys-in-range', ok_keys, sig=sig)
    E.prove(label + ':no-stored-zero', E.all(conds), sig=sig)


def SIZES(tier, quick, thorough):
    return quick if tier == 'quick' else thorough
