"""C16 — activity-coefficient models are side-effect free, default to one, and agree with their
functional form (the decidable part).

The un-jitted UNIFAC / Dortmund / NIST kernels run on SYMBOLIC mole fractions (object arrays)
at concrete temperatures with exp / ln uninterpreted: the caller's composition array must be
element-wise identical afterwards, chemicals without group data get exactly 1, the ideal
activity / fugacity / Poynting models return 1, Gamma(chems)(x, T) and Gamma(chems).f(x, T,
*args) are the same term, and (thorough) permuting the chemical list permutes the coefficients.
Outside: gamma_i -> 1 as x_i -> 1 (a single concrete evaluation once x is a vertex) and the
Gibbs-Duhem relation (a derivative identity over transcendental terms)."""
import numpy as np
import thermosteam as tmo

from symx import core
from . import common as C

ID = 'C16'
REAL_REPLAY = False
STUBS = ['numpy exp / log inside activity_coefficients.py: uninterpreted functions (real numpy in replays)']
ASSUMPTIONS = ['mole fractions: every face and vertex of the simplex (each entry exactly 0 or symbolic > 0; not normalised by the harness: the models normalise the sub-composition themselves)',
               'temperature from the concrete set {298.15, 350.0} (the interaction parameter arrays are float arrays that are divided by T in place)']
OUTSIDE = ['gamma_i -> 1 as x_i -> 1', 'Gibbs-Duhem relation', 'more than 3 chemicals with groups + 1 without']
BOUNDS = {'quick': dict(models='UNIFAC Dortmund NIST Ideal', chemicals='Water Ethanol Octane + one chemical without groups'),
          'thorough': dict(models='as quick', chemicals='as quick + permutations')}
_fx = {}


def setup(mode):
    sym = C.begin_setup(mode)
    if not _fx:
        chems = tmo.Chemicals(['Water', 'Ethanol', 'Octane'], cache=True)
        nog = tmo.Chemical('NaCl', cache=True) if False else tmo.Chemical.blank('NoGroups', phase='l')
        _fx['with'] = list(chems)
        _fx['without'] = nog
    if sym:
        C.patch(['thermosteam.equilibrium.activity_coefficients'])


def model_class(name):
    ac = C.mod('thermosteam.equilibrium.activity_coefficients')
    return {'UNIFAC': ac.UNIFACActivityCoefficients, 'Dortmund': ac.DortmundActivityCoefficients,
            'NIST': ac.NISTActivityCoefficients, 'Ideal': ac.IdealActivityCoefficients}[name]


def xs(E, n, zeros=False):
    """mole fractions: symbolic > 0, or (zeros=True) any face / vertex of the simplex: each entry is either
    symbolic > 0 or exactly 0.0, at least one present"""
    out = []
    for i in range(n):
        if zeros and not E.choice(2, f'x{i}-present'):
            out.append(0.0)
            continue
        v = E.real(f'x{i}', nice=(0.05, 0.9))
        E.assume(v > 0)
        out.append(v)
    if all(not isinstance(v, core.SymNum) and v == 0.0 for v in out):
        raise core.PathAbort('empty composition')
    return out


def g_purity_and_defaults():
    def run(E):
        import warnings
        warnings.simplefilter('ignore')
        name = E.pick(['UNIFAC', 'Dortmund', 'NIST', 'Ideal'], 'model')
        layout = E.pick(['all-with-groups', 'one-without-groups-last', 'one-without-groups-first', 'two-chemicals'], 'chemicals')
        W, nog = _fx['with'], _fx['without']
        if layout == 'all-with-groups':
            chems = W
        elif layout == 'one-without-groups-last':
            chems = W[:2] + [nog]
        elif layout == 'one-without-groups-first':
            chems = [nog] + W[:2]
        else:
            chems = W[:2]
        T = E.pick([298.15, 350.0], 'T')
        G = model_class(name)(chems)
        x = xs(E, len(chems), zeros=True)
        arr = C.array(E, x)
        before = list(arr)
        how = E.pick(['call', 'f'], 'how')
        if how == 'call' or name == 'Ideal':
            g = G(arr, T)
        else:
            g = G.f(arr, T, *G.args)
        g = list(g) if np.ndim(g) else [g] * len(chems)      # the functional form of a model without groups is the scalar 1.
        after = list(arr)
        sig = f'{name}/{layout}/{how}'
        E.prove('caller-composition-unchanged', all(a is b or (E.concrete and a == b) for a, b in zip(after, before)) and len(after) == len(before), sig=sig)
        for i, c in enumerate(chems):
            if c is nog:
                E.prove('chemical-without-groups-gets-exactly-one', (not isinstance(g[i], core.SymNum)) and float(g[i]) == 1.0, sig=sig)
        if name == 'Ideal':
            E.prove('ideal-model-returns-one', all((not isinstance(v, core.SymNum)) and float(v) == 1.0 for v in g), sig=sig)
        # exp / ln are uninterpreted on the symbolic side and real in the replay: only the coefficients that are
        # plain numbers (the defaults) are comparable between the two
        for i, c in enumerate(chems):
            if c is nog or name == 'Ideal':
                E.observe(f'gamma{i}', g[i])
    return run


def g_functional_form():
    def run(E):
        import warnings
        warnings.simplefilter('ignore')
        name = E.pick(['UNIFAC', 'Dortmund', 'NIST'], 'model')
        chems = _fx['with'][:E.pick([2, 3], 'n')]
        T = E.pick([298.15, 350.0], 'T')
        G = model_class(name)(chems)
        x = xs(E, len(chems), zeros=True)
        g1 = G(C.array(E, x), T)
        # optionally the other public entry point of the model object in between: evaluating a model must leave
        # the model as it was (the parameter tables are arrays that are scaled by T while evaluating)
        if E.choice(2, 'activity_coefficients-called-in-between'):
            nz = [v for v in x if isinstance(v, core.SymNum) or v != 0.0]
            if len(nz) == len(x) and hasattr(G, 'activity_coefficients'):
                G.activity_coefficients(C.array(E, x), T)
        g2 = G.f(C.array(E, x), T, *G.args)
        g1 = list(g1) if np.ndim(g1) else [g1] * len(chems)
        g2 = list(g2) if np.ndim(g2) else [g2] * len(chems)
        E.prove('functional-form-equals-model-object', E.all([E.eq(a, b) for a, b in zip(g1, g2)]), sig=name)
    return run


def g_ideal_models():
    def run(E):
        fc = C.mod('thermosteam.equilibrium.fugacity_coefficients')
        pc = C.mod('thermosteam.equilibrium.poyinting_correction_factors')
        chems = _fx['with']
        which = E.pick(['IdealFugacityCoefficients', 'MockPoyintingCorrectionFactors'], 'model')
        x = xs(E, 3)
        T = E.real('T', lo=250, hi=450, nice=(300, 400))
        P = E.real('P', lo=1e4, hi=1e6, nice=(5e4, 5e5))
        if which == 'IdealFugacityCoefficients':
            m = fc.IdealFugacityCoefficients(chems)
            r1 = m(C.array(E, x), T, P)
            r2 = m.f(C.array(E, x), T, P, *m.args)
        else:
            m = pc.MockPoyintingCorrectionFactors(chems)
            r1 = m(T, P, C.array(E, x))
            r2 = m(T, P)
        ok = all(np.all(np.asarray(r, dtype=float) == 1.0) for r in (r1, r2))
        E.prove('ideal-model-returns-one', ok, sig=which)
    return run


def g_permutation():
    def run(E):
        import itertools
        import warnings
        warnings.simplefilter('ignore')
        name = E.pick(['Dortmund', 'NIST', 'UNIFAC'], 'model')
        W = _fx['with']
        perm = list(itertools.permutations(range(3)))[1 + E.choice(5, 'permutation')]
        T = E.pick([298.15, 350.0], 'T')
        x = xs(E, 3)
        G1 = model_class(name)(W)
        G2 = model_class(name)([W[i] for i in perm])
        g1 = list(G1(C.array(E, x), T))
        g2 = list(G2(C.array(E, [x[i] for i in perm]), T))
        E.prove('coefficient-does-not-depend-on-position-in-the-list', E.all([E.eq(g2[k], g1[i]) for k, i in enumerate(perm)]), sig=name)
    return run


BUDGET_S = {'quick': 400, 'thorough': 2400}


def groups(tier):
    q = tier == 'quick'
    g = {
        'purity-and-defaults': (g_purity_and_defaults(), dict(qtimeout_ms=20000)),
        'functional-form': (g_functional_form(), dict(qtimeout_ms=30000)),
        'ideal-fugacity-and-poynting': (g_ideal_models(), {}),
    }
    if not q:
        g['permutation'] = (g_permutation(), dict(qtimeout_ms=60000, task_budget_s=300))
    return g
