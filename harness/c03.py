"""C03 — phase equilibrium never creates, destroys or makes negative any material.

The real VLE / LLE / SLE bookkeeping runs on symbolic flows and specifications while every
numerical solver is replaced by a nondeterministic stub: bubble/dew points, saturation
pressure/temperature, the fixed-point vapour solve, the root finders, the mixture enthalpy /
entropy models and the LLE / solubility solvers return FRESH symbolic values constrained
only by their documented contract.  Conservation, non-negativity and the fate of gas-only /
condensed-only chemicals are thereby decided for every solver outcome."""
import thermosteam as tmo

from symx import core, isolation, shim
from . import common as C
from . import streams as S

ID = 'C03'
REAL_REPLAY = False
STUBS = [
    'BubblePoint/DewPoint.solve_Px/Py/Tx/Ty: fresh T or P and a fresh composition vector with entries in [0, 1]',
    'Psats[i](T), Chemical.Psat/Tsat of the single equilibrium chemical: fresh positive values; pcf = 1',
    'VLE._solve_v_fixed_point: fresh vapour flow vector (unconstrained: the real _solve_v clips it)',
    'VLE._refresh_K: no-op (initial guess only)',
    'flexsolve.IQ_interpolation: evaluates the residual once at a fresh point inside the bracket and returns that point',
    'thermo.mixture: H, S, xH, xS uninterpreted functions of (phase, flows, T, P); xsolve_T_at_HP/SP return a fresh T',
    'LLE.solve_lle_liquid_mol: fresh vector with 0 <= l_i <= mol_i; SLE._solve_x: fresh x in [0, 1]',
]
ASSUMPTIONS = ['flows symbolic > 0 on an explicit presence pattern; 0 <= V <= 1; T, P > 0; x, y specifications in [0, 1]',
               'x / y specifications: flows may be negative by at most 2e-5 of the total (the lever rule clamps split fractions that are up to 1e-5 outside [0, 1])']
OUTSIDE = ['which split is returned (C04)', 'reactive flash (gas_conversion / liquid_conversion)', 'vlle', 'more than 3 volatile chemicals']
BOUNDS = {'quick': dict(volatile='<=2 of 3', light=1, heavy=1, specs='TP TV PV Tx Py LLE SLE'),
          'thorough': dict(volatile='<=3', light=1, heavy=1, specs='TP TV PV PH PS TH TS Tx Px Ty Py LLE SLE')}
_fx = {}


def setup(mode):
    sym = C.begin_setup(mode)
    if not _fx:
        chems = tmo.Chemicals(['Water', 'Ethanol', 'Octane', tmo.Chemical('N2', phase='g'), tmo.Chemical('Glucose', phase='s')], cache=True)
        tmo.settings.set_thermo(chems, cache=True)
        _fx['th'] = th = tmo.settings.get_thermo()
        isolation.track(th.chemicals._index_cache)
        _fx['N'] = th.chemicals.size
        _fx['light'] = list(th.chemicals._light_indices)
        _fx['heavy'] = list(th.chemicals._heavy_indices)
        _fx['vol'] = [i for i in range(th.chemicals.size) if i not in _fx['light'] + _fx['heavy']]
    if sym:
        C.patch(S.SYM_MODULES + ['thermosteam.equilibrium.vle', 'thermosteam.equilibrium.lle', 'thermosteam.equilibrium.sle',
                                 'thermosteam.functional'])
        C.setg(C.mod('thermosteam.base.sparse').SparseVector, 'dtype', core.symfloat)


# ----------------------------------------------------------------------------- stubs
def vec(E, tag, n, lo=0.0, hi=1.0):
    """a normalised composition: entries in [0, 1] summing to one"""
    vals = [E.real(f'{tag}{i}', lo=lo, hi=hi, nice=(0.05, 0.45)) for i in range(n - 1)]
    last = 1.0 - sum(vals) if vals else 1.0
    if vals:
        E.assume(last >= 0)
    return C.array(E, vals + [last])


class StubPoint:
    Pmax = 1e7
    Pmin = 1e3
    Tmin = 200.
    Tmax = 600.

    def __init__(self, E, n):
        self.E, self.n, self.k = E, n, 0

    def _s(self, tag, lo, hi):
        self.k += 1
        self.E.stub_called('bubble/dew point')
        return self.E.real(f'{tag}{self.k}', lo=lo, hi=hi, nice=(lo * 1.5, hi * 0.6))

    @property
    def Psats(self):
        def mk(i):
            def f(T):
                self.k += 1
                return self.E.real(f'Psat{i}_{self.k}', lo=1.0, nice=(1e4, 5e5))
            return f
        return [mk(i) for i in range(self.n)]

    def solve_Px(self, z, T, *a):
        return self._s('Pdew', 1e3, 1e7), vec(self.E, f'xdew{self.k}_', self.n)

    def solve_Py(self, z, T, *a):
        return self._s('Pbub', 1e3, 1e7), vec(self.E, f'ybub{self.k}_', self.n)

    def solve_Tx(self, z, P, *a):
        return self._s('Tdew', 200., 600.), vec(self.E, f'xdew{self.k}_', self.n)

    def solve_Ty(self, z, P, *a):
        return self._s('Tbub', 200., 600.), vec(self.E, f'ybub{self.k}_', self.n)


class StubChemical:
    Tc = 1e9

    def __init__(self, E):
        self.E = E

    def Psat(self, T):
        return self.E.real('Psat1', lo=1.0, nice=(1e4, 5e5))

    def Tsat(self, P, check_validity=False):
        return self.E.real('Tsat1', lo=200., hi=600., nice=(300, 400))


class StubMixture:
    def __init__(self, E, n):
        self.E, self.n, self.k = E, n, 0

    def _flows(self, mol):
        return [mol.dct.get(i, 0.0) for i in range(self.n)] if hasattr(mol, 'dct') else list(mol)

    def H(self, phase, mol, T, P):
        return self.E.uf('mixH_' + phase, *self._flows(mol), T, P)

    def S(self, phase, mol, T, P):
        return self.E.uf('mixS_' + phase, *self._flows(mol), T, P)

    def xH(self, phase_mol, T, P):
        return sum(self.H(ph, mol, T, P) for ph, mol in phase_mol)

    def xS(self, phase_mol, T, P):
        return sum(self.S(ph, mol, T, P) for ph, mol in phase_mol)

    def xsolve_T_at_HP(self, phase_mol, H, T, P):
        self.k += 1
        self.E.stub_called('xsolve_T')
        return self.E.real(f'Tsolved{self.k}', lo=200., hi=600., nice=(300, 400))
    xsolve_T_at_SP = xsolve_T_at_HP


class StubThermo:
    def __init__(self, real, E):
        self.real = real
        self.mixture = StubMixture(E, real.chemicals.size)
        self.chemicals = real.chemicals

    def __getattr__(self, n):
        return getattr(self.real, n)


class FlxStub:
    """stands in for the flexsolve module inside thermosteam.equilibrium.vle"""
    def __init__(self, E, real):
        self.E, self.real, self.k = E, real, 0

    def __getattr__(self, n):
        return getattr(self.real, n)

    def IQ_interpolation(self, f, x0, x1, y0, y1, x, xtol, ytol, args=(), **kw):
        self.k += 1
        self.E.stub_called('IQ_interpolation')
        lo = self.E.ite(x0 <= x1, x0, x1) if not self.E.concrete else min(x0, x1)
        hi = self.E.ite(x0 <= x1, x1, x0) if not self.E.concrete else max(x0, x1)
        r = self.E.real(f'root{self.k}', nice=(1, 1e6))
        self.E.assume(self.E.all([r >= lo, r <= hi]) if not self.E.concrete else True)
        f(r, *args)         # side effects of the last residual evaluation
        return r


def make_vle(E, ms):
    vle = C.mod('thermosteam.equilibrium.vle')

    class SVLE(vle.VLE):
        __slots__ = ('_real_points',)

        def _setup(self, *a):
            stub = self._thermo
            self._thermo = stub.real          # BubblePoint / DewPoint constructors want the real package
            try:
                vle.VLE._setup(self, *a)
            finally:
                self._thermo = stub
            n = len(self._index)
            if self._N == 1:
                self._chemical = StubChemical(E)
            elif self._N > 1:
                # the objects the library built for this stream (inspected by C04) before they are replaced
                self._real_points = (self._bubble_point, self._dew_point)
                self._bubble_point = StubPoint(E, n)
                self._dew_point = StubPoint(E, n)
                self._pcf = lambda T, P, Ps: 1.0
                self._gamma = self._phi = None

        def _refresh_K(self, *a, **k):
            pass

        def _solve_v_fixed_point(self, *a):
            E.stub_called('_solve_v_fixed_point')
            n = len(self._index)
            return C.array(E, [E.real(f'v{i}_{E.stub_calls["_solve_v_fixed_point"]}', nice=(0.01, 50)) for i in range(n)])
    C.setg(vle, 'flx', FlxStub(E, vle.flx if not isinstance(vle.flx, FlxStub) else vle.flx.real))
    V = SVLE(ms.imol, ms._thermal_condition, ms._thermo)
    V._thermo = StubThermo(ms._thermo, E)
    return V


# ----------------------------------------------------------------------------- inputs
def mk_feed(E, nvol_choices, dist_choices=('liquid', 'gas', 'both'), nonvol=((0, 0), (1, 0), (0, 1), (1, 1))):
    th = _fx['th']
    N = _fx['N']
    nvol = E.pick(nvol_choices, 'n-volatile')
    light, heavy = E.pick(list(nonvol), 'light-gas/heavy-solute-present')
    dist = E.pick(list(dist_choices), 'initial-distribution')
    present = _fx['vol'][:nvol] + (_fx['light'] if light else []) + (_fx['heavy'] if heavy else [])
    if not present:
        raise core.PathAbort('empty stream')
    ms = tmo.MultiStream(None, thermo=th, phases='lg')
    order = ms.imol._phases
    fl = {ph: [0.0] * N for ph in order}
    for i in present:
        for ph in order:
            if dist == 'both' or (dist == 'liquid' and ph == 'l') or (dist == 'gas' and ph == 'g'):
                x = E.real(f'f{ph}{i}', nice=(0.5, 40))
                E.assume(x > 0)
                fl[ph][i] = x
    for ph in order:
        S.inject(ms.imol.data.rows[order.index(ph)], fl[ph])
    tot = [fl['l'][i] + fl['g'][i] for i in range(N)]
    return ms, tot, f'vol={nvol}/light={light}/heavy={heavy}/{dist}'


def check(E, ms, tot, sig, vle_rules=True, lever=False):
    N = _fx['N']
    order = ms.imol._phases
    rows = {ph: [ms.imol.data.rows[order.index(ph)].dct.get(i, 0.0) for i in range(N)] for ph in order}
    after = [sum(rows[ph][i] for ph in order) for i in range(N)]
    for i in range(N):
        E.observe(f'tot{i}', after[i])
    E.prove('per-chemical-total-unchanged', E.all([E.eq(a, b) for a, b in zip(after, tot)]), sig=sig)
    # the lever rule accepts split fractions up to 1e-5 outside [0, 1] before clamping them
    slack = 2e-5 * sum(tot) if lever else 0.0
    E.prove('no-negative-phase-flow', E.all([E.ge(x, -slack) if lever else E.ge(x, 0.0) for ph in order for x in rows[ph]]), sig=sig)
    if vle_rules:
        E.prove('gas-only-chemicals-entirely-in-gas', E.all([E.eq(rows['l'][i], 0.0) for i in _fx['light']]), sig=sig)
        E.prove('condensed-only-chemicals-never-in-gas', E.all([E.eq(rows['g'][i], 0.0) for i in _fx['heavy']]), sig=sig)
    S.check_invariant(E, ms, 'data', sig=sig)


def spec_values(E, spec):
    kw = {}
    for s in spec:
        if s == 'T':
            kw['T'] = E.real('Tspec', lo=250, hi=500, nice=(300, 400))
        elif s == 'P':
            kw['P'] = E.real('Pspec', lo=1e4, hi=5e6, nice=(5e4, 5e5))
        elif s == 'V':
            kw['V'] = E.real('Vspec', lo=0, hi=1, nice=(0.1, 0.9))
        elif s == 'H':
            kw['H'] = E.real('Hspec', nice=(-1e5, 1e5))
        elif s == 'S':
            kw['S'] = E.real('Sspec', nice=(0, 1e4))
    return kw


def g_vle(specs, nvol_choices, dists=('liquid', 'gas', 'both'), nonvol=((0, 0), (1, 0), (0, 1), (1, 1))):
    def run(E):
        spec = E.pick(specs, 'spec')
        ms, tot, fsig = mk_feed(E, nvol_choices, dists, nonvol)
        V = make_vle(E, ms)
        sig = f'{spec}/{fsig}'
        kw = spec_values(E, spec[:2] if spec[1] not in 'xy' else spec[0])
        if spec[1] in 'xy':
            x0 = E.real('comp0', lo=0, hi=1, nice=(0.1, 0.9))
            kw[spec[1]] = C.array(E, [x0, 1 - x0])
        try:
            V(**kw)
        except (tmo.exceptions.NoEquilibrium, tmo.exceptions.InfeasibleRegion, NotImplementedError, AssertionError,
                ZeroDivisionError, FloatingPointError) as e:
            # documented refusals; the material must still be all there
            check(E, ms, tot, sig + f'/{type(e).__name__}', vle_rules=False)
            return
        except RuntimeError as e:
            if 'no chemicals present' in str(e):
                check(E, ms, tot, sig + '/RuntimeError', vle_rules=False)
                return
            raise
        check(E, ms, tot, sig, lever=spec[1] in 'xy')
    return run


def g_vle_history(specs, nvol_choices):
    """a second equilibrium call on the SAME VLE object (same chemicals present) after gas-only material was put
    into the liquid and condensed-only material into the gas in between (what mix_from of a liquid feed carrying
    N2 does in a flash-vessel loop): the rules hold after the second call as well"""
    def run(E):
        spec = E.pick(specs, 'spec')
        ms, tot, fsig = mk_feed(E, nvol_choices, ('both',), ((1, 1),))
        V = make_vle(E, ms)
        sig = f'second-call/{spec}/{fsig}'
        refusals = (tmo.exceptions.NoEquilibrium, tmo.exceptions.InfeasibleRegion, NotImplementedError, AssertionError,
                    ZeroDivisionError, FloatingPointError)
        try:
            V(**spec_values(E, spec))
        except refusals:
            raise core.PathAbort('first call refused')
        order = ms.imol._phases
        tot = list(tot)
        for ph, idx, tag in (('l', _fx['light'], 'light-into-liquid'), ('g', _fx['heavy'], 'heavy-into-gas')):
            for i in idx:
                x = E.real(f'{tag}{i}', nice=(0.5, 10))
                E.assume(x > 0)
                row = ms.imol.data.rows[order.index(ph)]
                row[i] = row.dct.get(i, 0.0) + x
                tot[i] = tot[i] + x
        kw = {}
        for k in spec:
            kw[k] = E.real(f'{k}spec2', lo={'T': 250, 'P': 1e4}[k], hi={'T': 500, 'P': 5e6}[k], nice={'T': (300, 400), 'P': (5e4, 5e5)}[k])
        try:
            V(**kw)
        except refusals as e:
            check(E, ms, tot, sig + f'/{type(e).__name__}', vle_rules=False)
            return
        check(E, ms, tot, sig)
    return run


def g_lle(npres_choices=(2, 3), tops=(None, 'Octane', 'Water')):
    def run(E):
        lle = C.mod('thermosteam.equilibrium.lle')
        th = _fx['th']
        N = _fx['N']
        ms = tmo.MultiStream(None, thermo=th, phases='lL')
        order = ms.imol._phases
        npres = E.pick(npres_choices, 'n-present')
        dist = E.pick(['l', 'L', 'both'], 'initial-distribution')
        fl = {ph: [0.0] * N for ph in order}
        for i in range(npres):
            for ph in order:
                if dist == 'both' or dist == ph:
                    x = E.real(f'f{ph}{i}', nice=(0.5, 40))
                    E.assume(x > 0)
                    fl[ph][i] = x
        for ph in order:
            S.inject(ms.imol.data.rows[order.index(ph)], fl[ph])
        tot = [fl['l'][i] + fl['L'][i] for i in range(N)]

        class SLLE(lle.LLE):
            __slots__ = ()

            def solve_lle_liquid_mol(self, mol, T, lle_chemicals, *a, **k):
                E.stub_called('solve_lle_liquid_mol')
                out = []
                for i, m in enumerate(mol):
                    x = E.real(f'lsplit{i}', lo=0, nice=(0.01, 30))
                    E.assume(x <= m)
                    out.append(x)
                return C.array(E, out)
        L = SLLE(ms.imol, ms._thermal_condition, th)
        T = E.real('Tspec', lo=285, hi=355, nice=(290, 350))
        top = E.pick(list(tops), 'top_chemical')
        sig = f'LLE/n={npres}/{dist}/top={top}'
        try:
            L(T=T, top_chemical=top)
        except tmo.exceptions.NoEquilibrium:
            sig += '/NoEquilibrium'
        rows = {ph: [ms.imol.data.rows[order.index(ph)].dct.get(i, 0.0) for i in range(N)] for ph in order}
        after = [rows['l'][i] + rows['L'][i] for i in range(N)]
        E.prove('per-chemical-total-unchanged', E.all([E.eq(a, b) for a, b in zip(after, tot)]), sig=sig)
        E.prove('no-negative-phase-flow', E.all([E.ge(x, 0.0) for ph in order for x in rows[ph]]), sig=sig)
        S.check_invariant(E, ms, 'data', sig=sig)
    return run


def g_lle_second_call():
    """the SAME LLE object called again at the same temperature after the composition was edited: within the
    composition tolerance the remembered partition coefficients are reused (phase fraction from the stubbed
    Rachford-Rice solve, 0 <= phi <= 1), outside it the solver stub runs; either way totals and signs hold.
    First feed and first split concrete (the remembered K is then concrete and positive)."""
    FEEDS = {2: [1.0, 2.0], 3: [1.0, 2.0, 0.5]}

    def run(E):
        lle = C.mod('thermosteam.equilibrium.lle')
        th = _fx['th']
        N = _fx['N']
        ms = tmo.MultiStream(None, thermo=th, phases='lL')
        order = ms.imol._phases
        npres = E.pick([2, 3], 'n-present')
        state = {'call': 0}

        class SLLE(lle.LLE):
            __slots__ = ()

            def solve_lle_liquid_mol(self, mol, T, lle_chemicals, *a, **k):
                E.stub_called('solve_lle_liquid_mol')
                if state['call'] == 0:
                    return C.array(E, [m * f for m, f in zip(mol, (0.25, 0.5, 0.75))])
                out = []
                for i, m in enumerate(mol):
                    x = E.real(f'lsplit{i}', lo=0, nice=(0.01, 0.3))
                    E.assume(x <= m)
                    out.append(x)
                return C.array(E, out)

        def pf(z, K, phi=None, *a, **k):
            E.stub_called('phase_fraction')
            return E.real('phi', lo=0, hi=1, nice=(0.9, 0.99))
        C.setg(lle, 'phase_fraction', pf)
        L = SLLE(ms.imol, ms._thermal_condition, th)

        def load(flows):
            fl = list(flows) + [0.0] * (N - len(flows))
            for ph in order:
                S.inject(ms.imol.data.rows[order.index(ph)], fl if ph == 'l' else [0.0] * N)
            return fl
        load(FEEDS[npres])
        T = 300.
        L(T=T)
        state['call'] = 1
        which = E.pick(list(range(npres)), 'edited-chemical')
        g = E.real('g', nice=(FEEDS[npres][which] * (1 - 2e-5), FEEDS[npres][which] * 3))
        E.assume(g > 0)
        f2 = list(FEEDS[npres])
        f2[which] = g
        tot = load(f2)
        top = E.pick([None, 'Water'], 'top_chemical')
        before = dict(E.stub_calls)
        L(T=T, top_chemical=top)
        reused = E.stub_calls.get('phase_fraction', 0) > before.get('phase_fraction', 0)
        sig = f'LLE-second-call/n={npres}/edited={which}/top={top}/reused={reused}'
        rows = {ph: [ms.imol.data.rows[order.index(ph)].dct.get(i, 0.0) for i in range(N)] for ph in order}
        after = [rows['l'][i] + rows['L'][i] for i in range(N)]
        E.prove('second-call-per-chemical-total-unchanged', E.all([E.eq(a, b) for a, b in zip(after, tot)]), sig=sig)
        E.prove('second-call-no-negative-phase-flow', E.all([E.ge(x, 0.0) for ph in order for x in rows[ph]]), sig=sig)
    return run


def g_sle():
    def run(E):
        sle = C.mod('thermosteam.equilibrium.sle')
        th = _fx['th']
        N = _fx['N']
        ms = tmo.MultiStream(None, thermo=th, phases='sl')
        order = ms.imol._phases
        solute = 4      # Glucose
        dist = E.pick(['s', 'l', 'both'], 'solute-initial-phase')
        fl = {ph: [0.0] * N for ph in order}
        for i in (0, 1):
            if E.choice(2, f'solvent{i}?'):
                x = E.real(f'fl{i}', nice=(0.5, 40))
                E.assume(x > 0)
                fl['l'][i] = x
        for ph in order:
            if dist == 'both' or dist == ph:
                x = E.real(f'f{ph}{solute}', nice=(0.5, 40))
                E.assume(x > 0)
                fl[ph][solute] = x
        for ph in order:
            S.inject(ms.imol.data.rows[order.index(ph)], fl[ph])
        tot = [fl['l'][i] + fl['s'][i] for i in range(N)]

        class SSLE(sle.SLE):
            __slots__ = ()

            def _solve_x(self, T):
                E.stub_called('_solve_x')
                return E.real('xsol', lo=0, hi=1, nice=(0.05, 0.9))
        Sx = SSLE(ms.imol, ms._thermal_condition, th)
        T = E.real('Tspec', lo=250, hi=450, nice=(290, 350))
        given = E.choice(2, 'solubility-given')
        kw = dict(T=T)
        if given:
            kw['solubility'] = E.real('solubility', lo=0, nice=(0.01, 5))
        sig = f'SLE/{dist}/solubility-given={given}'
        try:
            Sx('Glucose', **kw)
        except tmo.exceptions.NoEquilibrium:
            sig += '/NoEquilibrium'
        rows = {ph: [ms.imol.data.rows[order.index(ph)].dct.get(i, 0.0) for i in range(N)] for ph in order}
        after = [rows['l'][i] + rows['s'][i] for i in range(N)]
        E.prove('per-chemical-total-unchanged', E.all([E.eq(a, b) for a, b in zip(after, tot)]), sig=sig)
        E.prove('no-negative-phase-flow', E.all([E.ge(x, 0.0) for ph in order for x in rows[ph]]), sig=sig)
        others = [E.eq(rows[ph][i], fl[ph][i]) for ph in order for i in range(N) if i != solute]
        E.prove('only-the-solute-moves', E.all(others), sig=sig)
        S.check_invariant(E, ms, 'data', sig=sig)
    return run


BUDGET_S = {'quick': 400, 'thorough': 1200}


def groups(tier):
    q = tier == 'quick'
    nv = ((0, 0), (1, 1)) if q else ((0, 0), (1, 0), (0, 1), (1, 1))
    d = ('both', 'gas') if q else ('liquid', 'gas', 'both')
    g = {
        'vle-TP': (g_vle(['TP'], [0, 1, 2] if q else [0, 1, 2, 3], d, nv), dict(max_paths=3000000, task_budget_s=120)),
        'vle-TV': (g_vle(['TV'], [1] if q else [1, 2], ('both',) if q else d, ((0, 0), (1, 1)) if q else nv), dict(max_paths=3000000, task_budget_s=120, qtimeout_ms=20000)),
        'vle-PV': (g_vle(['PV'], [1] if q else [1, 2], ('both',) if q else d, ((0, 0), (1, 1)) if q else nv), dict(max_paths=3000000, task_budget_s=120, qtimeout_ms=20000)),
        'vle-second-call': (g_vle_history(['TP'], [1] if q else [1, 2]), dict(max_paths=3000000, task_budget_s=120, qtimeout_ms=20000)),
        'vle-xy': (g_vle(['Tx', 'Px', 'Ty', 'Py'], [2], d, ((0, 0),) if q else nv), dict(max_paths=1000000)),
        'lle': (g_lle((2,), (None, 'Water')) if q else g_lle(), dict(max_paths=1000000, stubs_required=('solve_lle_liquid_mol',), qtimeout_ms=20000)),
        'lle-second-call': (g_lle_second_call(), dict(max_paths=1000000, qtimeout_ms=20000)),
        'sle': (g_sle(), dict(max_paths=1000000)),
    }
    if not q:
        g['vle-PH-PS-TH-TS'] = (g_vle(['PH', 'PS', 'TH', 'TS'], [1, 2], ('both',), ((0, 0), (1, 1))), dict(max_paths=3000000, task_budget_s=300))
    return g
