"""C06 — heat of reaction and adiabatic reaction close the energy balance."""
import thermosteam as tmo

from symx import core, shim
from . import common as C
from . import rxn as R
from . import streams as S
from . import c03
from .c05 import near, near0, feed_flows, stream_flows

ID = 'C06'
REAL_REPLAY = False
STUBS = ['thermo.mixture of the reacted stream: H(phase, mol, T, P) uninterpreted; solve_T_at_HP returns a fresh T* with the CONTRACT H(phase, mol, T*, P) == target']
ASSUMPTIONS = ['heats of formation Hf_i symbolic; stoichiometry symbolic and atomically balanced; X in [0,1]; feeds > 0; Q symbolic',
               'latent heats of phase-tagged reactions: the real Hvap(298.15) / Hfus of the database chemicals (concrete)',
               'the isothermal clause is decided on the formation part: Hf(after) - Hf(before) = dH x reactant fed (the sensible part vanishes only at the reference temperature)']
OUTSIDE = ['convergence of the real temperature solve', 'IEEE rounding', 'ReactionSystem dH (no such attribute)']
BOUNDS = {'quick': dict(chemicals=5, reactions='single, parallel/series pairs'), 'thorough': dict(chemicals=5, reactions='as quick + all phase tags')}


def setup(mode):
    sym = C.begin_setup(mode)
    R.fixture(sym)
    if sym:
        C.patch(R.SYM_MODULES)
        C.setg(C.mod('thermosteam.base.sparse').SparseVector, 'dtype', core.symfloat)


def sym_Hf(E, fx):
    """install symbolic heats of formation on both packages; returns them in IDS order"""
    hf = [E.real(f'Hf{i}', lo=-2e6, hi=2e6, nice=(-9e5, 1e5)) for i in range(5)]
    for th in (fx['thermo'], fx['thermoB']):
        ch = th.chemicals
        order = [R.IDS.index(i) for i in ch.IDs]
        ch.__dict__['Hf'] = C.array(E, [hf[i] for i in order])
    return hf


class Mix(c03.StubMixture):
    def solve_T_at_HP(self, phase, mol, H, T, P):
        self.k += 1
        self.E.stub_called('solve_T_at_HP')
        Ts = self.E.real(f'Tsolved{self.k}', lo=200., hi=3000., nice=(300, 900))
        # contract of the temperature solve: the enthalpy the stream will REPORT at the returned T (per-mole
        # model on the normalised composition times the total flow, as in Stream._get_property) equals the target
        fl = self._flows(mol)
        tot = sum(fl)
        comp = mol / tot
        self.E.assume(self.E.eq(tot * self.H(phase, comp, Ts, P), H), 'total * h(x, T*) == target')
        return Ts


def g_dH():
    def run(E):
        fx = R.fixture(not E.concrete)
        hf = sym_Hf(E, fx)
        basis = E.pick(['mol', 'wt'], 'basis')
        reactant = E.pick([0, 1, 3], 'reactant')
        parts = [i for i in range(5) if i != reactant and E.choice(2, f'part[{R.IDS[i]}]?')]
        r, nu, X = R.mk_reaction(E, fx, 'a', reactant, parts, basis)
        mw = R.MW(fx, not E.concrete)
        exp = X * sum(nu[i] * hf[i] for i in range(5) if not S.is_zero(nu[i]))
        if basis == 'wt':
            exp = exp / mw[reactant]
        got = r.dH
        E.observe('dH', got)
        E.prove('dH-is-X-times-stoichiometric-sum-of-Hf', near(E, got, exp, 1e-6), sig=basis)
        # isothermal reaction: formation enthalpy flow changes by dH x reactant fed
        feed = feed_flows(E, 'f', 5, [1] * 5)
        s = tmo.Stream(None, thermo=fx['thermo'])
        S.inject(s.imol.data, feed)
        Hf0 = s.Hf
        try:
            r(s)
        except tmo.exceptions.InfeasibleRegion:
            return
        fed = feed[reactant] * (mw[reactant] if basis == 'wt' else 1.0)
        E.prove('formation-enthalpy-changes-by-dH-times-reactant-fed', near(E, s.Hf - Hf0, got * fed, 1e-5), sig=basis)
    return run


def g_phase_tagged():
    def run(E):
        fx = R.fixture(not E.concrete)
        hf = sym_Hf(E, fx)
        th = fx['thermo']
        basis = E.pick(['mol', 'wt'], 'basis')
        nu = R.balanced_stoichiometry(E, fx, 'p', 1, [2, 3, 4])      # Ethanol + O2 -> H2O + CO2
        X = E.real('pX', lo=0, hi=1, nice=(0.05, 0.95))
        tag = {1: E.pick('lg', 'ethanol-phase'), 2: E.pick('lg', 'water-phase'), 3: 'g', 4: 'g'}
        d = {R.IDS[i]: (tag[i], nu[i]) for i in (1, 2, 3, 4)}
        r = tmo.Reaction(d, reactant='Ethanol', X=X, chemicals=th.chemicals, basis='mol', phases='gl')
        if basis == 'wt':
            r.basis = 'wt'
        latent = {}
        for i in (1, 2, 3, 4):
            c = th.chemicals.tuple[i]
            ref, ph = c.phase_ref, tag[i]
            if ref == ph:
                latent[i] = 0.0
            elif ref == 'l' and ph == 'g':
                latent[i] = float(c.Hvap(298.15))
            elif ref == 'g' and ph == 'l':
                latent[i] = -float(c.Hvap(298.15))
            else:
                raise core.PathAbort('solid reference not in this reaction')
        mw = R.MW(fx, not E.concrete)
        exp = X * sum(nu[i] * (hf[i] + latent[i]) for i in (1, 2, 3, 4))
        if basis == 'wt':
            exp = exp / mw[1]
        got = r.dH
        E.observe('dH', got)
        E.prove('dH-includes-latent-heat-between-reference-and-tagged-phase', near(E, got, exp, 1e-5),
                sig=f'{basis}/ethanol={tag[1]}/water={tag[2]}')
    return run


def g_adiabatic(bases=('mol', 'wt'), kinds=('single', 'parallel', 'series'), phases='lg'):
    def run(E):
        fx = R.fixture(not E.concrete)
        hf = sym_Hf(E, fx)
        th = fx['thermo']
        basis = E.pick(list(bases), 'basis')
        kind = E.pick(list(kinds), 'kind')
        r1, nu1, X1 = R.mk_reaction(E, fx, 'a', 1, [2, 3, 4], basis)
        if kind == 'single':
            rx = r1
        else:
            r2, nu2, X2 = R.mk_reaction(E, fx, 'b', 0, [1, 4], basis)
            rx = (tmo.ParallelReaction if kind == 'parallel' else tmo.SeriesReaction)([r1, r2])
        feed = feed_flows(E, 'f', 5, [1, 1, 0, 1, 0])
        s = tmo.Stream(None, thermo=th, phase=E.pick(list(phases), 'phase'))
        S.inject(s.imol.data, feed)
        stub = c03.StubThermo(th, E)
        stub.mixture = Mix(E, 5)
        s._thermo = stub
        s._thermal_condition._T = E.real('T0', lo=280, hi=450, nice=(300, 400))
        Q = E.real('Q', nice=(-1e5, 1e5))
        with_Q = E.choice(2, 'heat-input-given')
        if E.choice(2, 'enthalpy-read-in-the-other-phase-before'):
            # history: the same stream object was looked at while tagged with the other phase (same T, P, flows)
            ph0 = s.phase
            s.phase = 'g' if ph0 == 'l' else 'l'
            s.H
            s.phase = ph0
        # "before" is what a freshly created stream in the same state reports
        twin = tmo.Stream(None, thermo=th, phase=s.phase)
        S.inject(twin.imol.data, feed)
        twin._thermo = stub
        twin._thermal_condition._T = s._thermal_condition._T
        before = twin.Hnet
        try:
            if with_Q:
                rx.adiabatic_reaction(s, Q)
            else:
                rx.adiabatic_reaction(s)
        except tmo.exceptions.InfeasibleRegion:
            return
        after = s.Hnet
        E.observe('Hnet', after)
        E.prove('adiabatic-reaction-keeps-Hnet-plus-heat-input', near(E, after, before + (Q if with_Q else 0.0), 1e-5),
                sig=f'{kind}/{basis}/Q={with_Q}')
    return run


BUDGET_S = {'quick': 400, 'thorough': 2400}


def groups(tier):
    q = tier == 'quick'
    return {
        'heat-of-reaction': (g_dH(), dict(max_paths=400000, qtimeout_ms=20000)),
        'phase-tagged-latent-heats': (g_phase_tagged(), dict(qtimeout_ms=20000)),
        'adiabatic-reaction': (g_adiabatic(('mol',), ('single',), 'l') if q else g_adiabatic(),
                               dict(max_paths=400000, qtimeout_ms=30000, stubs_required=('solve_T_at_HP',), task_budget_s=200)),
    }
