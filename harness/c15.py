"""C15 — liquid-liquid and solid-liquid splits meet their labelling / reuse / solubility rules
(the decidable part).

Decided, with the LLE solver and the eutectic solubility replaced by nondeterministic stubs:
  (i)   LLE.__call__ reuses remembered partition coefficients only when |T - T_last| and every
        |z_i - z_last_i| are inside the stated tolerances and the chemical set is unchanged;
  (ii)  with a named top chemical its mass fraction in 'L' is >= that in 'l' for whatever split
        the solver returns;
  (iii) SLE: only the solute moves, the dissolved mole fraction never exceeds the solubility that
        was given / computed nor what is present, a pure solute is all liquid above its melting
        point and all solid otherwise.
Outside (convergence of float iterations): equal activities in both liquids, agreement between
solver methods, homogeneity of the converged split."""
import thermosteam as tmo

from symx import core, isolation
from . import common as C
from . import streams as S
from . import c03

ID = 'C15'
REAL_REPLAY = False
STUBS = ['LLE.solve_lle_liquid_mol: fresh split 0 <= l_i <= mol_i', 'SLE._solve_x: fresh solubility in [0, 1]',
         'separations/binary phase_fraction used on the reuse path: fresh phase fraction']
ASSUMPTIONS = ['LLE: feeds from two concrete compositions per chemical count, the splits returned by the solver stub, T1, T2 and the second composition symbolic; SLE: flows symbolic > 0, T in (250, 450)', 'tolerances are the library defaults read from the LLE object']
OUTSIDE = ['that the float iteration reaches a fixed point (equal activities are decided AT a fixed point of the inner loop)', 'agreement between solver methods', 'scaling with the feed', 'more than 3 chemicals']
BOUNDS = {'quick': dict(lle_chemicals='2-3', calls=2, sle_calls_on_one_object=2), 'thorough': dict(lle_chemicals='2-3', calls=2, sle_calls_on_one_object=2)}
_fx = c03._fx


def setup(mode):
    c03.setup(mode)


class _Decided(Exception):
    """raised by the stubs of the SECOND call as soon as the reuse decision is known"""
    def __init__(self, reused):
        self.reused = reused


def make_lle(E, ms, tag='a', probe=None):
    lle = C.mod('thermosteam.equilibrium.lle')
    probe = probe if probe is not None else {}

    class SLLE(lle.LLE):
        __slots__ = ()

        def solve_lle_liquid_mol(self, mol, T, lle_chemicals, *a, **k):
            E.stub_called('solve_lle_liquid_mol')
            if probe.get('second-call'):
                raise _Decided(False)
            n = E.stub_calls['solve_lle_liquid_mol']
            if probe.get('concrete-split'):
                # a history call whose own result does not matter: fixed split, no forks
                return C.array(E, [m * f for m, f in zip(mol, (0.25, 0.5, 0.75, 0.4, 0.6))])
            out = []
            for i, m in enumerate(mol):
                x = E.real(f'lsplit{n}_{i}', lo=0, nice=(0.01, 0.9))
                E.assume(x <= m)
                out.append(x)
            return C.array(E, out)
    def pf(z, K, phi=None, *a, **k):
        E.stub_called('phase_fraction')
        if probe.get('second-call'):
            raise _Decided(True)
        return E.real(f'phi{E.stub_calls.get("phase_fraction", 0)}', nice=(0.1, 0.9))
    C.setg(lle, 'phase_fraction', pf)
    return SLLE(ms.imol, ms._thermal_condition, ms._thermo)


FEEDS = {2: [[1.0, 2.0], [3.0, 0.5]], 3: [[1.0, 2.0, 0.5], [0.25, 1.0, 3.0]]}


def load(E, ms, flows):
    """put the (liquid) feed into phase l; flows: list over the first chemicals"""
    N = _fx['N']
    order = ms.imol._phases
    fl = list(flows) + [0.0] * (N - len(flows))
    for ph in order:
        S.inject(ms.imol.data.rows[order.index(ph)], fl if ph == 'l' else [0.0] * N)
    return fl


def g_reuse_guard():
    """two consecutive calls on the same LLE object.  Feeds of the first call are concrete (two
    compositions per chemical count); T1, T2, the first split and the second composition are
    symbolic - the guard itself only compares temperatures and normalised compositions"""
    def run(E):
        th = _fx['th']
        ms = tmo.MultiStream(None, thermo=th, phases='lL')
        npres = E.pick([2, 3], 'n-chemicals')
        f1 = load(E, ms, FEEDS[npres][E.choice(2, 'first-feed')])
        probe = {}
        L = make_lle(E, ms, probe=probe)
        T1 = E.real('T1', lo=285, hi=355, nice=(290, 350))
        try:
            L(T=T1)
        except (ZeroDivisionError, FloatingPointError):
            raise core.PathAbort('degenerate first split')
        probe['second-call'] = True
        change = E.pick(['T', 'composition', 'both', 'chemical-set'], 'changed')
        T2 = E.real('T2', lo=285, hi=355, nice=(290, 350)) if change in ('T', 'both') else T1
        npres2 = npres
        if change in ('composition', 'both'):
            g0 = E.real('g0', nice=(0.2, 5))
            E.assume(g0 > 0)
            f2 = load(E, ms, [g0] + FEEDS[npres][0][1:])
        elif change == 'chemical-set':
            npres2 = 5 - npres
            f2 = load(E, ms, FEEDS[npres2][0])
        else:
            f2 = load(E, ms, f1[:npres])
        try:
            L(T=T2)
        except _Decided as d:
            reused = d.reused
        else:
            raise core.PathAbort('second call did not reach the solver (single liquid chemical)')
        sig = f'n={npres}/changed={change}'
        if not reused:
            E.prove('fresh-solve', True, sig=sig)
            return
        tolT, tolz = L.temperature_cache_tolerance, L.composition_cache_tolerance
        F1, F2 = sum(f1), sum(f2)
        dT = T2 - T1
        # 1e-6 relative slack on the tolerances: remembered compositions are floats (1/3 is stored as
        # 0.3333333333333333), which shifts the exact-rational boundary by ~1e-16
        conds = [E.le(dT, tolT * (1 + 1e-6)), E.ge(dT, -tolT * (1 + 1e-6))]
        for i in range(max(npres, npres2)):
            dz = f2[i] / F2 - f1[i] / F1
            conds += [E.le(dz, tolz * (1 + 1e-6)), E.ge(dz, -tolz * (1 + 1e-6))]
        conds.append(npres2 == npres)
        E.prove('remembered-coefficients-reused-only-within-tolerances', E.all(conds), sig=sig)
    return run


def g_reuse_after_query():
    """a normal call at T1, then a query-only call (update=False) at a concrete other temperature, then a call
    at a symbolic T3: the coefficients now remembered are those of the QUERY, so reuse is legitimate only when
    T3 is within the tolerance of the query's temperature (concrete T1 / Tq keep the first two calls on one path)"""
    def run(E):
        th = _fx['th']
        ms = tmo.MultiStream(None, thermo=th, phases='lL')
        npres = E.pick([2, 3], 'n-chemicals')
        f1 = load(E, ms, FEEDS[npres][0])
        probe = {}
        L = make_lle(E, ms, probe=probe)
        T1 = E.pick([300., 340.], 'T1')
        Tq = E.pick([320., 300.], 'Tq')
        if Tq == T1:
            raise core.PathAbort('query at the same temperature')
        try:
            L(T=T1)
            load(E, ms, f1[:npres])
            L(T=Tq, update=False)
        except (ZeroDivisionError, FloatingPointError):
            raise core.PathAbort('degenerate split')
        probe['second-call'] = True
        T3 = E.real('T3', lo=285, hi=355, nice=(299.9995, 300.0005))
        try:
            L(T=T3)
        except _Decided as d:
            reused = d.reused
        else:
            raise core.PathAbort('third call did not reach the solver')
        sig = f'n={npres}/T1={T1}/Tq={Tq}'
        if not reused:
            E.prove('fresh-solve', True, sig=sig)
            return
        tolT = L.temperature_cache_tolerance * (1 + 1e-6)
        E.prove('coefficients-of-a-query-only-call-reused-only-near-its-temperature', E.all([E.le(T3 - Tq, tolT), E.ge(T3 - Tq, -tolT)]), sig=sig)
    return run


def g_inner_loop_fixed_point():
    """one application of psuedo_equilibrium_inner_loop (the map iterated by the default 'pseudo equilibrium'
    method) on symbolic (ln K, gamma_y), z, phi with uninterpreted activity coefficients.  The accelerated
    fixed-point solver is taken at its contract - it returns a fixed point of the map - and at a fixed point
    every chemical must have the same activity x_i*gamma_i(x) in both liquids (up to the common normalisation
    factor sum(K*x)), which is the equilibrium condition of C15."""
    def run(E):
        import math
        import numpy as np
        lle = C.mod('thermosteam.equilibrium.lle')
        n = 2
        T = 300.0
        f = lle.psuedo_equilibrium_inner_loop
        f = getattr(f, 'py_func', f)         # the stub activity model is a Python callable

        def f_gamma(x, T_, *a):
            E.stub_called('gamma')
            out = []
            for i in range(n):
                g = E.uf(f'gamma{i}', *list(x))
                E.assume(g > 0)
                out.append(g)
            return C.array(E, out) if not E.concrete else np.array(out, dtype=float)
        z, K, gy = [], [], []
        for i in range(n):
            v = E.real(f'z{i}', nice=(0.1, 0.9))
            E.assume(v > 0)
            z.append(v)
            k = E.real(f'K{i}', nice=(0.05, 20))
            E.assume(k > 0)
            K.append(k)
            g = E.real(f'gammay{i}', nice=(0.5, 20))
            E.assume(g > 0)
            gy.append(g)
        E.assume(E.eq(sum(z), 1.0))
        phi = E.real('phi', lo=0, hi=1, nice=(0.2, 0.8))
        E.assume(E.all([phi > 0, phi < 1]) if not E.concrete else 0 < phi < 1)
        if E.concrete:
            L = [math.log(k) for k in K]
            vec = np.array(L + gy, dtype=float)
            new = f(vec, np.array(z, dtype=float), T, n, f_gamma, (), phi)
            fixed = all(core._concrete_eq(a, b, 1e-9) for a, b in zip(new, vec))
            E.assume(fixed, 'the solver returned a fixed point of the inner loop')
        else:
            L = [E.uf('ln', k) for k in K]
            for l, k in zip(L, K):
                E.assume(E.eq(E.uf('exp', l), k), 'exp(ln K) == K')
            vec = C.array(E, L + gy)
            new = list(f(vec, C.array(E, z), T, n, f_gamma, (), phi))
            # ln is injective: the K recomputed by the loop is compared through its logarithm
            x0 = [zi / (1.0 + phi * (k - 1.0)) for zi, k in zip(z, K)]
            sx = sum(x0)
            x = [v / sx for v in x0]
            gx = [E.uf(f'gamma{i}', *x) for i in range(n)]
            y1 = [(gx[i] / gy[i]) * x[i] for i in range(n)]
            s1 = sum(y1)
            y1 = [v / s1 for v in y1]
            Knew = [gx[i] / E.uf(f'gamma{i}', *y1) for i in range(n)]
            for i in range(n):
                E.assume(E.implies(E.eq(E.uf('ln', Knew[i]), L[i]), E.eq(Knew[i], K[i])), 'ln is injective')
            E.assume(E.all([E.eq(a, b) for a, b in zip(new, L + gy)]), 'the solver returned a fixed point of the inner loop')
        # phase compositions implied by (K, phi): x = z / (1 + phi (K - 1)) normalised, y = K x normalised
        x0 = [zi / (1.0 + phi * (k - 1.0)) for zi, k in zip(z, K)]
        sx = sum(x0)
        x = [v / sx for v in x0]
        y0 = [k * v for k, v in zip(K, x)]
        sy = sum(y0)
        y = [v / sy for v in y0]
        gx = [E.uf(f'gamma{i}', *x) for i in range(n)]
        ax = [x[i] * gx[i] for i in range(n)]
        E.observe('x0', x[0])
        # the chain of the argument is spelled out (z3 does not find the congruence step gamma(y) = gamma(y') by
        # itself): (a) the K the split is computed from is the ratio of the activity coefficients the loop holds,
        # (b) hence the composition y = K x / sum(K x) IS the composition y' at which the loop evaluated gamma_y,
        # so gamma(y) = gamma_y, and (c) with it x_i gamma_i(x) : y_i gamma_i(y) is the same for all chemicals
        y1 = [(gx[i] / gy[i]) * x[i] for i in range(n)]
        s1 = sum(y1)
        y1 = [v / s1 for v in y1]
        ay = [y[i] * gy[i] for i in range(n)]
        E.prove('fixed-point-of-the-inner-loop-has-equal-activities-in-both-liquids',
                E.all([E.eq(K[i] * gy[i], gx[i]) for i in range(n)] + [E.eq(a, b) for a, b in zip(y, y1)] + [E.eq(ax[0] * ay[1], ax[1] * ay[0])]),
                sig='pseudo equilibrium/n=2')
    return run


def g_top_chemical():
    def run(E):
        th = _fx['th']
        N = _fx['N']
        MW = [float(x) for x in th.chemicals.MW]
        ms = tmo.MultiStream(None, thermo=th, phases='lL')
        npres = E.pick([2, 3], 'n-chemicals')
        load(E, ms, FEEDS[npres][E.choice(2, 'feed')])
        probe = {}
        L = make_lle(E, ms, probe=probe)
        # optionally an earlier call on the same object while ANOTHER set of chemicals was present (the position of
        # the top chemical among the chemicals in equilibrium differs between the two calls)
        earlier = E.pick(['none', 'first-two', 'last-two'], 'earlier-call-with-other-chemicals')
        if earlier != 'none':
            fl0 = [1.0, 2.0, 0.0] if earlier == 'first-two' else [0.0, 2.0, 1.5]
            if sum(1 for x in fl0 if x) == npres and all(bool(a) == bool(b) for a, b in zip(fl0, FEEDS[npres][0] + [0.0] * (3 - npres))):
                raise core.PathAbort('same chemical set')
            feed_now = [ms.imol.data.rows[ms.imol._phases.index('l')].dct.get(i, 0.0) for i in range(3)]
            load(E, ms, fl0)
            probe['concrete-split'] = True
            try:
                L(T=300.0, top_chemical=E.pick([c for c, x in zip(['Water', 'Ethanol', 'Octane'], fl0) if x], 'earlier-top'))
            except (ZeroDivisionError, FloatingPointError):
                raise core.PathAbort('degenerate earlier split')
            probe['concrete-split'] = False
            load(E, ms, feed_now)
        top = E.pick(['Water', 'Ethanol', 'Octane'][:npres], 'top_chemical')
        T = E.real('T', lo=285, hi=355, nice=(290, 350))
        try:
            L(T=T, top_chemical=top)
        except (ZeroDivisionError, FloatingPointError):
            raise core.PathAbort('degenerate split')
        order = ms.imol._phases
        rows = {ph: [ms.imol.data.rows[order.index(ph)].dct.get(i, 0.0) for i in range(N)] for ph in order}
        k = th.chemicals.IDs.index(top)
        ML = sum(rows['L'][i] * MW[i] for i in range(N))
        Ml = sum(rows['l'][i] * MW[i] for i in range(N))
        both = E.all([ML > 0, Ml > 0])
        E.prove('top-chemical-is-richer-in-L', E.implies(both, E.ge(rows['L'][k] * MW[k] * Ml, rows['l'][k] * MW[k] * ML)), sig=f'n={npres}/top={top}')
    return run


def g_sle_rules():
    def run(E):
        sle = C.mod('thermosteam.equilibrium.sle')
        th = _fx['th']
        N = _fx['N']
        ms = tmo.MultiStream(None, thermo=th, phases='sl')
        order = ms.imol._phases
        solute = 4
        nsolv = E.pick([0, 1, 2], 'n-solvents')
        dist = E.pick(['s', 'l', 'both'], 'solute-initial-phase')
        fl = {ph: [0.0] * N for ph in order}
        for i in range(nsolv):
            x = E.real(f'solvent{i}', nice=(0.5, 40))
            E.assume(x > 0)
            fl['l'][i] = x
        for ph in order:
            if dist == 'both' or dist == ph:
                x = E.real(f'solute_{ph}', nice=(0.5, 40))
                E.assume(x > 0)
                fl[ph][solute] = x
        for ph in order:
            S.inject(ms.imol.data.rows[order.index(ph)], fl[ph])
        xs = E.real('xsol', lo=0, hi=1, nice=(0.05, 0.9))

        class SSLE(sle.SLE):
            __slots__ = ()

            def _solve_x(self, T):
                E.stub_called('_solve_x')
                return xs
        Sx = SSLE(ms.imol, ms._thermal_condition, th)
        T = E.real('T', lo=250, hi=450, nice=(290, 440))
        given = E.choice(2, 'solubility-given')
        kw = dict(T=T)
        if given:
            kw['solubility'] = xs
        Sx('Glucose', **kw)
        rows = {ph: [ms.imol.data.rows[order.index(ph)].dct.get(i, 0.0) for i in range(N)] for ph in order}
        tot_sol = fl['l'][solute] + fl['s'][solute]
        liq_other = sum(rows['l'][i] for i in range(N) if i != solute)
        sig = f'solvents={nsolv}/{dist}/given={given}'
        E.prove('solute-conserved-between-liquid-and-solid', E.eq(rows['l'][solute] + rows['s'][solute], tot_sol), sig=sig)
        E.prove('dissolved-amount-not-more-than-present', E.all([E.le(rows['l'][solute], tot_sol), E.ge(rows['l'][solute], 0.0), E.ge(rows['s'][solute], 0.0)]), sig=sig)
        if nsolv == 0 and not given:
            Tm = float(th.chemicals.tuple[solute].Tm)
            above = T > Tm
            E.prove('pure-solute-all-liquid-above-Tm-all-solid-otherwise',
                    E.all([E.implies(above, E.eq(rows['s'][solute], 0.0)), E.implies(~above if not E.concrete else not above, E.eq(rows['l'][solute], 0.0))]), sig=sig)
        else:
            # dissolved mole fraction <= solubility:  n_l <= x (n_l + n_other)
            E.prove('dissolved-fraction-not-above-solubility', E.le(rows['l'][solute], xs * (rows['l'][solute] + liq_other)), sig=sig)
    return run


def g_sle_second_call():
    """the SAME SLE object called again after the stream was edited (other solvent / solute amounts, the same
    chemicals present): the rules hold for the second call's own amounts and solubility"""
    def run(E):
        sle = C.mod('thermosteam.equilibrium.sle')
        th = _fx['th']
        N = _fx['N']
        ms = tmo.MultiStream(None, thermo=th, phases='sl')
        order = ms.imol._phases
        solute = 4
        nsolv = E.pick([1, 2], 'n-solvents')
        cur = {'xs': None}

        class SSLE(sle.SLE):
            __slots__ = ()

            def _solve_x(self, T):
                E.stub_called('_solve_x')
                return cur['xs']
        Sx = SSLE(ms.imol, ms._thermal_condition, th)
        T = E.real('T', lo=250, hi=450, nice=(290, 440))
        ncalls = 2
        for call in range(ncalls):
            dist = E.pick(['s', 'l', 'both'], f'solute-phase-before-call{call}')
            fl = {ph: [0.0] * N for ph in order}
            for i in range(nsolv):
                x = E.real(f'solvent{i}_call{call}', nice=(0.5 + 30 * call, 40 - 30 * call))
                E.assume(x > 0)
                fl['l'][i] = x
            for ph in order:
                if dist == 'both' or dist == ph:
                    x = E.real(f'solute_{ph}_call{call}', nice=(0.5 + call, 40))
                    E.assume(x > 0)
                    fl[ph][solute] = x
            for ph in order:
                row = ms.imol.data.rows[order.index(ph)]
                row.dct.clear()
                S.inject(row, fl[ph])
            xs = E.real(f'xsol_call{call}', lo=0, hi=1, nice=(0.05, 0.9))
            cur['xs'] = xs
            given = E.choice(2, f'solubility-given-call{call}')
            kw = dict(T=T)
            if given:
                kw['solubility'] = xs
            Sx('Glucose', **kw)
            if call == 0:
                continue
            rows = {ph: [ms.imol.data.rows[order.index(ph)].dct.get(i, 0.0) for i in range(N)] for ph in order}
            tot_sol = fl['l'][solute] + fl['s'][solute]
            liq_other = sum(rows['l'][i] for i in range(N) if i != solute)
            sig = f'solvents={nsolv}/{dist}/given={given}'
            E.prove('second-call-solvents-untouched', E.all([E.eq(rows['l'][i], fl['l'][i]) for i in range(N) if i != solute]
                                                            + [E.eq(rows['s'][i], 0.0) for i in range(N) if i != solute]), sig=sig)
            E.prove('second-call-solute-conserved-between-liquid-and-solid', E.eq(rows['l'][solute] + rows['s'][solute], tot_sol), sig=sig)
            E.prove('second-call-dissolved-amount-not-more-than-present', E.all([E.le(rows['l'][solute], tot_sol), E.ge(rows['l'][solute], 0.0), E.ge(rows['s'][solute], 0.0)]), sig=sig)
            E.prove('second-call-dissolved-fraction-not-above-solubility', E.le(rows['l'][solute], xs * (rows['l'][solute] + liq_other)), sig=sig)
    return run


BUDGET_S = {'quick': 400, 'thorough': 2400}


def groups(tier):
    return {
        'lle-reuse-guard': (g_reuse_guard(), dict(qtimeout_ms=20000, max_paths=400000)),
        'lle-reuse-after-query': (g_reuse_after_query(), dict(qtimeout_ms=20000, max_paths=400000)),
        'lle-inner-loop-fixed-point': (g_inner_loop_fixed_point(), dict(qtimeout_ms=60000, stubs_required=('gamma',))),
        'lle-top-chemical': (g_top_chemical(), dict(qtimeout_ms=30000, max_paths=400000)),
        'sle-rules': (g_sle_rules(), dict(qtimeout_ms=20000, max_paths=400000)),
        'sle-second-call': (g_sle_second_call(), dict(qtimeout_ms=20000, max_paths=400000)),
    }
