"""C04 — a vapour-liquid flash honours its specifications (the decidable part).

Decided here, with the numerical solvers stubbed as in C03:
  (i)   after every specification pair the stored T / P equal the specified ones;
  (ii)  compute_phase_fraction_2N satisfies the Rachford-Rice equation for all z, K (rational
        identity, NRA) and as_valid_fraction clamps into [0, 1];
  (iii) set_PH's final vaporise / condense correction reproduces the specified H exactly when the
        corrected fraction lies strictly inside (0, 1), for any enthalpy model linear in flows;
  (iv)  at specified T and P the result is all liquid when P >= P_bubble (no light gas) and all
        vapour when P <= P_dew (no heavy solute), whatever the bubble / dew stubs return.
Outside the claim (convergence of float iterations): V-spec residual, iso-fugacity, agreement
with an independent Raoult/Rachford-Rice solve for N > 2, S-spec exactness, homogeneity."""
import thermosteam as tmo

from symx import core
from . import common as C
from . import streams as S
from . import c03

ID = 'C04'
REAL_REPLAY = False
STUBS = c03.STUBS + ['(iii): mixture H(phase, mol, T, P) = sum n_i h_i(phase, T, P) with h_i uninterpreted (linear in flows)']
ASSUMPTIONS = c03.ASSUMPTIONS + ['Rachford-Rice: z_i > 0, K_i > 0, denominators non-zero']
OUTSIDE = ['vapour-fraction residual within solver resolution', 'iso-fugacity', 'Raoult / Rachford-Rice agreement for N > 2',
           'specified S reproduced (mixing entropy is not linear in flows)', 'scaling of product flows with the feed (needs deterministic solver stubs)']
BOUNDS = {'quick': dict(specs='TP TV PV (bookkeeping), 2-component Rachford-Rice, TP phase boundary', volatile='<=2'),
          'thorough': dict(specs='+ PH PS TH TS Tx Px Ty Py bookkeeping, PH exactness', volatile='<=2')}
_fx = c03._fx


def setup(mode):
    c03.setup(mode)
    if mode == 'sym':
        C.patch(['thermosteam.equilibrium.binary_phase_fraction'])


def g_bookkeeping(specs, nvol, nonvol, dists):
    def run(E):
        spec = E.pick(specs, 'spec')
        ms, tot, fsig = c03.mk_feed(E, nvol, dists, nonvol)
        V = c03.make_vle(E, ms)
        T0 = E.real('T0', lo=250, hi=500, nice=(300, 400))
        P0 = E.real('P0', lo=1e4, hi=5e6, nice=(5e4, 5e5))
        ms._thermal_condition._T = T0
        ms._thermal_condition._P = P0
        kw = c03.spec_values(E, spec[:2] if spec[1] not in 'xy' else spec[0])
        if spec[1] in 'xy':
            x0 = E.real('comp0', lo=0, hi=1, nice=(0.1, 0.9))
            kw[spec[1]] = C.array(E, [x0, 1 - x0])
        sig = f'{spec}/{fsig}'
        try:
            V(**kw)
        except (tmo.exceptions.InfeasibleRegion, NotImplementedError, AssertionError, ZeroDivisionError, FloatingPointError, RuntimeError) as e:
            raise core.PathAbort(f'refused: {type(e).__name__}')
        if 'T' in kw:
            E.prove('stored-T-equals-specified-T', E.eq(ms.T, kw['T']), sig=sig)
        if 'P' in kw:
            E.prove('stored-P-equals-specified-P', E.eq(ms.P, kw['P']), sig=sig)
        E.observe('T', ms.T)
        E.observe('P', ms.P)
    return run


def g_rachford_rice():
    def run(E):
        b = C.mod('thermosteam.equilibrium.binary_phase_fraction')
        z1 = E.real('z1', lo=0, lo_open=True, nice=(0.05, 0.95))
        z2 = E.real('z2', lo=0, lo_open=True, nice=(0.05, 0.95))
        K1 = E.real('K1', lo=0, lo_open=True, nice=(0.05, 20))
        K2 = E.real('K2', lo=0, lo_open=True, nice=(0.05, 20))
        E.assume(z1 > 0)
        E.assume(z2 > 0)
        E.assume(K1 > 0)
        E.assume(K2 > 0)
        f_ = getattr(b.compute_phase_fraction_2N, 'py_func', b.compute_phase_fraction_2N)
        try:
            phi = f_(C.array(E, [z1, z2]), C.array(E, [K1, K2]))
        except ZeroDivisionError:
            raise core.PathAbort('degenerate denominator')
        E.observe('phi', phi)
        d1 = 1 + phi * (K1 - 1)
        d2 = 1 + phi * (K2 - 1)
        E.assume(E.ne(d1, 0.0) if not E.concrete else d1 != 0)
        E.assume(E.ne(d2, 0.0) if not E.concrete else d2 != 0)
        rr = z1 * (K1 - 1) / d1 + z2 * (K2 - 1) / d2
        E.prove('two-component-phase-fraction-satisfies-Rachford-Rice', E.eq(rr, 0.0), sig='compute_phase_fraction_2N')
        av = getattr(b.as_valid_fraction, 'py_func', b.as_valid_fraction)
        x = E.real('x', nice=(-2, 3))
        r = av(x)
        E.prove('as_valid_fraction-clamps', E.all([E.ge(r, 0.0), E.le(r, 1.0), E.implies((x >= 0) & (x <= 1) if not E.concrete else 0 <= x <= 1, E.eq(r, x))]),
                sig='as_valid_fraction')
    return run


def g_package():
    """the bubble- and dew-point solvers a VLE object builds belong to the property package OF THE STREAM (its
    activity, fugacity and Poynting model classes), whatever package is installed as the process-wide default -
    the precondition of "with the ideal package the split agrees with Raoult's law" """
    def run(E):
        th = _fx['th']
        which = E.pick(['ideal-on-stream/default-global', 'default-on-stream/ideal-global'], 'packages')
        ideal = th.ideal()
        mine, glob = (ideal, th) if which.startswith('ideal') else (th, ideal)
        old = tmo.settings.get_thermo()
        tmo.settings.set_thermo(glob)
        try:
            ms, tot, fsig = c03.mk_feed(E, [2], ('both',), ((0, 0),))
            ms._thermo = mine
            for v in ms._streams.values():
                v._thermo = mine
            V = c03.make_vle(E, ms)
            try:
                V(**c03.spec_values(E, 'TP'))
            except (tmo.exceptions.NoEquilibrium, ZeroDivisionError, FloatingPointError):
                raise core.PathAbort('refused')
            bp, dp = V._real_points
            ok = []
            for o in (bp, dp):
                ok += [type(o.gamma) is mine.Gamma, type(o.phi) is mine.Phi, type(o.pcf) is mine.PCF]
            E.prove('bubble-and-dew-point-solvers-use-the-streams-package', all(ok), sig=which,
                    info=dict(bubble=[type(bp.gamma).__name__, type(bp.phi).__name__, type(bp.pcf).__name__],
                              dew=[type(dp.gamma).__name__, type(dp.phi).__name__, type(dp.pcf).__name__]))
        finally:
            tmo.settings.set_thermo(old)
    return run


def g_tp_fixed_point(maps=('xVlogK_iter_2n', 'xVlogK_iter')):
    """one application of xVlogK_iter_2n / xVlogK_iter (the maps iterated by the T-P flash) on symbolic (x, V, ln K)
    with uninterpreted activity and fugacity coefficients; the fixed-point solver is taken at its contract (it
    returns a fixed point) and at a fixed point every chemical's liquid and vapour fugacities agree
    (K_i phi_i(y) = pcf_i Psat_i gamma_i(x) / P) and the liquid composition closes the material balance
    x_i (1 + V (K_i - 1)) = z_i"""
    def run(E):
        import math
        import numpy as np
        vle = C.mod('thermosteam.equilibrium.vle')
        b = C.mod('thermosteam.equilibrium.binary_phase_fraction')
        from . import c20
        n = 2
        which = E.pick(list(maps), 'map')
        T, P = 350.0, 101325.0

        def f_gamma(x, T_, *a):
            E.stub_called('gamma')
            out = [E.uf(f'gamma{i}', *list(x)) for i in range(n)]
            for g in out:
                E.assume(g > 0)
            return C.array(E, out) if not E.concrete else np.array(out, dtype=float)

        def f_phi(y, T_, P_):
            out = [E.uf(f'phi{i}', *list(y)) for i in range(n)]
            for g in out:
                E.assume(g > 0)
            return C.array(E, out) if not E.concrete else np.array(out, dtype=float)
        x, K, c, z = [], [], [], []
        for i in range(n):
            for lst, nm, nice in ((x, 'x', (0.1, 0.9)), (K, 'K', (0.05, 20)), (c, 'c', (0.05, 20)), (z, 'z', (0.1, 0.9))):
                v = E.real(f'{nm}{i}', nice=nice)
                E.assume(v > 0)
                lst.append(v)
        E.assume(E.eq(sum(z), 1.0))
        E.assume(E.eq(sum(x), 1.0))
        V = E.real('V', lo=0, hi=1, nice=(0.2, 0.8))
        E.assume(E.all([V > 0, V < 1]) if not E.concrete else 0 < V < 1)
        z_light = z_heavy = 0.0
        if which == 'xVlogK_iter':
            real = b.flx.real if isinstance(b.flx, c20._RRFlx) else b.flx
            if not E.concrete:
                C.setg(b, 'flx', c20._RRFlx(E, real))
        if E.concrete:
            L = [math.log(k) for k in K]
            vec = np.array(x + [V] + L, dtype=float)
            carr, zarr = np.array(c, dtype=float), np.array(z, dtype=float)
        else:
            L = [E.uf('ln', k) for k in K]
            for l, k in zip(L, K):
                E.assume(E.eq(E.uf('exp', l), k), 'exp(ln K) == K')
            vec = C.array(E, x + [V] + L)
            carr, zarr = C.array(E, c), C.array(E, z)
        try:
            if which == 'xVlogK_iter_2n':
                new = vle.xVlogK_iter_2n(vec, carr, T, P, zarr, f_gamma, (), f_phi, n, None, None)
            else:
                new = vle.xVlogK_iter(vec, carr, T, P, zarr, z_light, z_heavy, f_gamma, (), f_phi, n, None, None)
        except (ZeroDivisionError, FloatingPointError):
            raise core.PathAbort('degenerate partition coefficient (K = 1)')
        new = list(new)
        # what the map computes from the state it was given
        y0 = [xi * ki for xi, ki in zip(x, K)]
        sy = sum(y0)
        y = [v / sy for v in y0]
        gx = [E.uf(f'gamma{i}', *x) for i in range(n)]
        py = [E.uf(f'phi{i}', *y) for i in range(n)]
        Knew = [c[i] * gx[i] / py[i] for i in range(n)]
        if E.concrete:
            fixed = all(core._concrete_eq(a, b_, 1e-9) for a, b_ in zip(new, list(vec)))
            E.assume(fixed, 'the solver returned a fixed point of the map')
        else:
            for i in range(n):
                E.assume(E.implies(E.eq(E.uf('ln', Knew[i]), L[i]), E.eq(Knew[i], K[i])), 'ln is injective')
                E.assume(Knew[i] >= 1e-16, 'K above the 1e-16 floor')
            E.assume(E.all([E.eq(a, b_) for a, b_ in zip(new, x + [V] + L)]), 'the solver returned a fixed point of the map')
        if not E.concrete:
            # lemma (true for 0 < V < 1 and K > 0, stated to spare the solver a nonlinear derivation)
            for i in range(n):
                E.assume((1.0 - V) + V * K[i] > 0, '1 + V (K - 1) > 0')
        E.observe('V', V)
        sig = which
        E.prove('fixed-point-of-the-flash-iteration-has-equal-liquid-and-vapour-fugacities',
                E.all([E.eq(K[i] * py[i], c[i] * gx[i]) for i in range(n)]), sig=sig)
        # stated on the values the map RETURNED (which the fixed-point assumption equates with x, V, K): sparing the
        # solver the substitution through the rational closed form of V
        xn, Vn = new[:n], new[n]
        if not E.concrete:
            for i in range(n):
                E.assume((1.0 - Vn) + Vn * Knew[i] > 0, '1 + V (K - 1) > 0 (holds since V, K equal the positive inputs)')
        E.prove('fixed-point-of-the-flash-iteration-closes-the-material-balance',
                E.all([E.eq(xn[i] * (1.0 + Vn * (Knew[i] - 1.0)), z[i]) for i in range(n)]), sig=sig)
    return run


def g_phase_boundary():
    """(iv): the bubble/dew comparison of set_thermal_condition"""
    def run(E):
        nonvol = E.pick([(0, 0), (1, 0), (0, 1)], 'nonvolatile')
        ms, tot, fsig = c03.mk_feed(E, [2], ('both',), (nonvol,))
        V = c03.make_vle(E, ms)
        kw = c03.spec_values(E, 'TP')
        try:
            V(**kw)
        except tmo.exceptions.NoEquilibrium:
            raise core.PathAbort('no equilibrium')
        # the stub values the code compared P with
        Pdew = E.vars.get('Pdew1') if not E.concrete else E.values.get('Pdew1')
        bub_name = [n for n in (E.vars if not E.concrete else E.values) if n.startswith('Pbub')]
        order = ms.imol._phases
        rows = {ph: [ms.imol.data.rows[order.index(ph)].dct.get(i, 0.0) for i in range(_fx['N'])] for ph in order}
        vol = _fx['vol'][:2]
        light, heavy = nonvol
        P = kw['P']
        if Pdew is not None and not heavy:
            pd = core.SymNum(Pdew) if not E.concrete else Pdew
            E.prove('all-vapour-at-or-below-dew-pressure', E.implies(P <= pd, E.all([E.eq(rows['l'][i], 0.0) for i in vol])), sig=fsig)
        if bub_name and not light:
            pb = core.SymNum(E.vars[bub_name[0]]) if not E.concrete else E.values[bub_name[0]]
            cond = (P >= pb) if Pdew is None or heavy else ((P >= pb) & (P > (core.SymNum(Pdew) if not E.concrete else Pdew))
                                                             if not E.concrete else (P >= pb and P > Pdew))
            E.prove('all-liquid-at-or-above-bubble-pressure', E.implies(cond, E.all([E.eq(rows['g'][i], 0.0) for i in vol])), sig=fsig)
    return run


class LinearMixture(c03.StubMixture):
    def H(self, phase, mol, T, P):
        fl = self._flows(mol)
        return sum(x * self.E.uf(f'h{i}_{phase}', T, P) for i, x in enumerate(fl) if not S.is_zero(x))


class RootFlx(c03.FlxStub):
    """IQ_interpolation at its contract: the point it returns is a root of the residual it was handed"""
    def IQ_interpolation(self, f, x0, x1, y0, y1, x, xtol, ytol, args=(), **kw):
        E = self.E
        self.k += 1
        E.stub_called('IQ_interpolation')
        lo = E.ite(x0 <= x1, x0, x1) if not E.concrete else min(x0, x1)
        hi = E.ite(x0 <= x1, x1, x0) if not E.concrete else max(x0, x1)
        r = E.real(f'root{self.k}', nice=(1, 1e6))
        if not E.concrete:
            E.assume(E.all([r >= lo, r <= hi]))
        res = f(r, *args)
        if not E.concrete:
            E.assume(res == 0)
        return r


def g_TH_TS_residual():
    """T-H and T-S flashes of two volatile chemicals on a stream whose current T, P differ from the specification:
    with the pressure solver at its contract (it returns a root of the residual it was handed) the resulting
    stream reproduces the specified H / S - i.e. the residual is evaluated at the SPECIFIED temperature and on
    the flows the stream ends up with.  Mixture H / S uninterpreted."""
    def run(E):
        spec = E.pick(['TS', 'TH'], 'spec')
        ms, tot, fsig = c03.mk_feed(E, [2], ('both',), ((0, 0),))
        V = c03.make_vle(E, ms)
        vle = C.mod('thermosteam.equilibrium.vle')
        C.setg(vle, 'flx', RootFlx(E, vle.flx.real if isinstance(vle.flx, c03.FlxStub) else vle.flx))
        T0 = E.real('T0', lo=250, hi=500, nice=(300, 400))
        P0 = E.real('P0', lo=1e4, hi=5e6, nice=(5e4, 5e5))
        ms._thermal_condition._T = T0
        ms._thermal_condition._P = P0
        kw = c03.spec_values(E, spec)
        sig = f'{spec}/{fsig}'
        try:
            V(**kw)
        except (tmo.exceptions.InfeasibleRegion, NotImplementedError, AssertionError, ZeroDivisionError, FloatingPointError, RuntimeError) as e:
            raise core.PathAbort(f'refused: {type(e).__name__}')
        if not E.stub_calls.get('IQ_interpolation'):
            raise core.PathAbort('no pressure solve on this path')
        mix = V._thermo.mixture
        E.prove('stored-T-equals-specified-T', E.eq(ms.T, kw['T']), sig=sig)
        if spec == 'TS':
            after = mix.xS(tuple(ms.imol), ms.T, ms.P)
            E.prove('specified-S-reproduced-at-a-root-of-the-residual', E.eq(after, kw['S']), sig=sig)
        else:
            after = mix.xH(tuple(ms.imol), ms.T, ms.P)
            E.prove('specified-H-reproduced-at-a-root-of-the-residual', E.eq(after, kw['H']), sig=sig)
    return run


def g_PH_exact():
    def run(E):
        ms, tot, fsig = c03.mk_feed(E, [2], ('both',), ((0, 0),))
        V = c03.make_vle(E, ms)
        V._thermo.mixture = mix = LinearMixture(E, _fx['N'])
        kw = c03.spec_values(E, 'PH')
        try:
            V(**kw)
        except (tmo.exceptions.NoEquilibrium, tmo.exceptions.InfeasibleRegion):
            raise core.PathAbort('refused')
        if mix.k:
            raise core.PathAbort('temperature re-solved (fraction 0 or 1): covered by the stub contract only')
        H_after = mix.xH(tuple(ms.imol), ms.T, ms.P)
        E.observe('H', H_after)
        E.prove('specified-H-reproduced-when-correction-fraction-inside-(0,1)', E.eq(H_after, kw['H']), sig=fsig)
    return run


BUDGET_S = {'quick': 400, 'thorough': 1200}


def groups(tier):
    q = tier == 'quick'
    g = {
        'solver-objects-of-the-streams-package': (g_package(), dict(max_paths=100000)),
        'tp-iteration-fixed-point': (g_tp_fixed_point(), dict(qtimeout_ms=40000, stubs_required=('gamma',))),
        'spec-bookkeeping': (g_bookkeeping(['TP', 'TV', 'PV'], [1, 2] if not q else [1], ((0, 0), (1, 1)), ('both',)),
                             dict(max_paths=1000000, task_budget_s=120)),
        'spec-bookkeeping-TP-multicomponent': (g_bookkeeping(['TP'], [2], ((0, 0), (1, 1)), ('both',)), dict(max_paths=1000000, task_budget_s=120)),
        'rachford-rice-2N': (g_rachford_rice(), dict(qtimeout_ms=60000)),
        'TP-phase-boundary': (g_phase_boundary(), dict(max_paths=1000000, task_budget_s=120)),
    }
    g['spec-bookkeeping-HS'] = (g_bookkeeping(['PH', 'PS', 'TH', 'TS'], [1], ((0, 0),), ('both',)),
                                dict(max_paths=3000000, task_budget_s=300))
    g['spec-bookkeeping-xy'] = (g_bookkeeping(['Tx', 'Px', 'Ty', 'Py'], [2], ((0, 0),), ('both',)),
                                dict(max_paths=3000000, task_budget_s=300))
    g['TH-TS-residual'] = (g_TH_TS_residual(), dict(max_paths=1000000, task_budget_s=120, qtimeout_ms=20000, stubs_required=('IQ_interpolation',)))
    if not q:
        g['PH-exactness'] = (g_PH_exact(), dict(max_paths=3000000, task_budget_s=120, qtimeout_ms=10000))
    return g
