"""Reaction fixtures for C05 / C06 / C17: a private package over C/H/O chemicals whose
molecular weights are, in symbolic mode, EXACT rationals derived from the formula array
(MW_i = sum_e formula[e, i] * w_e), so that the mass balance is an exact consequence of the
atomic balance rather than a 4-digit accident of the database."""
import fractions

import numpy as np
import thermosteam as tmo
import z3

from symx import core, isolation, shim
from . import common as C

IDS = ['Glucose', 'Ethanol', 'H2O', 'O2', 'CO2']
IDS_B = ['CO2', 'O2', 'H2O', 'Ethanol', 'Glucose']      # same set, other order
AW = {'H': fractions.Fraction(1008, 1000), 'C': fractions.Fraction(12011, 1000), 'O': fractions.Fraction(15999, 1000)}
_fx = {}

SYM_MODULES = ['thermosteam.base.sparse', 'thermosteam.indexer', 'thermosteam._stream',
               'thermosteam._multi_stream', 'thermosteam._thermal_condition',
               'thermosteam.base.dictionary_view', 'thermosteam.reaction._reaction',
               'thermosteam.reaction._parse', 'thermosteam.reaction._xparse', 'thermosteam.functional']


def fixture(sym):
    """returns dict(thermo, thermoB, chems, FA (rows C,H,O as python ints), MWx)"""
    if 'thermo' not in _fx:
        chems = tmo.Chemicals(IDS, cache=True)
        tmo.settings.set_thermo(chems, cache=True)
        _fx['thermo'] = th = tmo.settings.get_thermo()
        chemsB = tmo.Chemicals(IDS_B, cache=True)
        tmo.settings.set_thermo(chemsB, cache=True)
        _fx['thermoB'] = thB = tmo.settings.get_thermo()
        tmo.settings.set_thermo(th)
        isolation.track(th.chemicals._index_cache)
        isolation.track(thB.chemicals._index_cache)
        FA = th.chemicals.formula_array
        from chemicals import elements
        rows = [r for r in range(FA.shape[0]) if FA[r].any()]
        syms = [elements.periodic_table[r + 1].symbol for r in rows]
        _fx['elements'] = syms
        _fx['FA'] = [[int(round(FA[r, i])) for i in range(len(IDS))] for r in rows]
        _fx['MW_float'] = {id(th.chemicals): th.chemicals.MW.copy(), id(thB.chemicals): thB.chemicals.MW.copy()}
        _fx['MW_exact'] = [sum(_fx['FA'][k][i] * AW[s] for k, s in enumerate(syms)) for i in range(len(IDS))]
    th, thB = _fx['thermo'], _fx['thermoB']
    for t in (th, thB):
        ch = t.chemicals
        if sym:
            order = [IDS.index(i) for i in ch.IDs]
            mw = np.empty(len(order), dtype=object)
            for k, i in enumerate(order):
                mw[k] = core.SymNum(z3.RealVal(str(_fx['MW_exact'][i])))
            ch.__dict__['MW'] = mw.view(shim.OArr)
        else:
            # same molecular weights as the symbolic run (inputs, not code): floats of the exact rationals
            order = [IDS.index(i) for i in ch.IDs]
            ch.__dict__['MW'] = np.array([float(_fx['MW_exact'][i]) for i in order])
    return _fx


def MW(fx, sym):
    ch = fx['thermo'].chemicals
    return list(ch.MW) if sym else [float(x) for x in ch.MW]


def balanced_stoichiometry(E, fx, name, reactant, participants):
    """Symbolic molar stoichiometry nu (reactant fixed at -1) with formula_array @ nu == 0.
    `participants`: indices of non-reactant chemicals with non-zero coefficient."""
    n = len(IDS)
    nu = [0.0] * n
    nu[reactant] = -1.0
    for i in participants:
        x = E.real(f'{name}nu{i}', nice=(-6, 6))
        E.assume(x != 0)
        nu[i] = x
    for row in fx['FA']:
        tot = sum(row[i] * nu[i] for i in range(n) if row[i] and not (isinstance(nu[i], float) and nu[i] == 0.0))
        E.assume(E.eq(tot, 0.0) if not E.concrete else abs(tot) < 1e-9, 'formula_array @ nu == 0')
    return nu


def mk_reaction(E, fx, name, reactant, participants, basis='mol', X=None, thermo=None):
    th = thermo or fx['thermo']
    nu = balanced_stoichiometry(E, fx, name, reactant, participants)
    if X is None:
        X = E.real(f'{name}X', lo=0, hi=1, nice=(0.05, 0.95))
    d = {IDS[i]: nu[i] for i in range(len(IDS)) if not (isinstance(nu[i], float) and nu[i] == 0.0)}
    r = tmo.Reaction(d, reactant=IDS[reactant], X=X, chemicals=th.chemicals, basis='mol')
    if basis == 'wt':
        r.basis = 'wt'
    return r, nu, X
