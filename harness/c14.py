"""C14 — every derived stream property reflects the current state, never a stale one.

The property package's mixture is a stub whose methods return an UNINTERPRETED function of
(property, phase, composition, T, P); the real Stream/MultiStream memo code runs on top of
it.  Sequences of reads and mutations are explored; the solver chooses coincidences between
symbolic values (that is how stale hits are found).  Oracle at every read: the same
uninterpreted function applied to the CURRENT state (x total flow for flow properties),
i.e. what a freshly created stream would return."""
import thermosteam as tmo

from symx import core
from . import common as C
from . import streams as S
from . import c11

ID = 'C14'
REAL_REPLAY = False
STUBS = ['thermo.mixture: every property method returns an uninterpreted function of (name, phase, composition vector, T, P)',
         '(volumetric reads) Chemical.V: a positive unknown per (chemical, phase, T, P), T and P from small concrete sets, as in C11']
ASSUMPTIONS = ['flows > 0 (zeros only through explicit emptying), T in (200, 600), P in (1e3, 1e7)',
               'state is mutated through public mutators: T/P/phase setters, imol writes, scale, mix_from, F_mol, link/proxy/phase views']
OUTSIDE = ['sequences longer than the stated depth', 'property-package change (set_thermo) sequences', 'more than 2 chemicals']
BOUNDS = {'quick': dict(depth=5, chemicals=2, alphabets='stream+proxy 6 ops; stream+link 6 ops; multistream+views 6 ops; mutators 7 ops (depth 3)'),
          'thorough': dict(depth=6, chemicals=2, alphabets='as quick, mutators depth 4')}
N = 2
PH = {'l': 1, 'g': 2, 's': 3, 'L': 4, 'S': 5}
_fx = {}


def setup(mode):
    sym = C.begin_setup(mode)
    if not _fx:
        pk = S.packages()
        _fx['th'] = pk['A2']
    if sym:
        C.patch(S.SYM_MODULES)
        C.setg(C.mod('thermosteam.base.sparse').SparseVector, 'dtype', core.symfloat)
    c11.install(sym)        # package with unknown molar volumes V_i(phase, T, P) for the volumetric reads


class StubMixture:
    def __init__(self, E):
        self.E = E

    def __getattr__(self, name):
        E = self.E
        if name.startswith('__'):
            raise AttributeError(name)
        if name.startswith('x'):
            def xf(phase_mol, T, P=None):
                args = []
                for phase, mol in phase_mol:
                    args.append(PH[phase])
                    args.extend(mol.dct.get(i, 0.0) for i in range(N))
                return E.uf('prop_' + name, *args, T, P)
            return xf

        def f(*a):
            if isinstance(a[0], str):
                phase, mol, T, P = a
                return E.uf('prop_' + name, PH[phase], *[mol.dct.get(i, 0.0) for i in range(N)], T, P)
            mol, T, P = a
            return E.uf('prop_' + name, 0, *[mol.dct.get(i, 0.0) for i in range(N)], T, P)
        return f


class StubThermo:
    def __init__(self, real, E):
        self.real = real
        self.mixture = StubMixture(E)
        self.chemicals = real.chemicals

    def __getattr__(self, n):
        return getattr(self.real, n)


READS = {'H': ('H', True, False), 'mu': ('mu', False, False), 'Hvap': ('Hvap', True, True)}


def fresh_value(E, s, prop):
    """what a freshly created stream in the same state returns"""
    name, flow, nophase = READS[prop]
    data = s.imol.data
    if hasattr(data, 'rows'):
        tot = sum(sum(r.dct.values()) for r in data.rows)
        if S.is_zero(tot):
            return 0.0 if flow else None
        if nophase:
            comp = [sum(r.dct.get(i, 0.0) for r in data.rows) / tot for i in range(N)]
            v = E.uf('prop_' + name, 0, *comp, s.T, s.P)
        else:
            args = []
            for ph, r in zip(s.imol._phases, data.rows):
                args.append(PH[ph])
                args.extend(r.dct.get(i, 0.0) / tot for i in range(N))
            v = E.uf('prop_x' + name, *args, s.T, s.P)
    else:
        tot = sum(data.dct.values())
        if S.is_zero(tot):
            return 0.0 if flow else None
        comp = [data.dct.get(i, 0.0) / tot for i in range(N)]
        v = E.uf('prop_' + name, 0 if nophase else PH[s.phase], *comp, s.T, s.P)
    return v * tot if flow else v


def read(E, s, prop, who, log, k):
    got = getattr(s, prop)
    exp = fresh_value(E, s, prop)
    log.append(f'read {prop} via {who}')
    E.observe(f'read{k}', got if got is not None else 0.0)
    sig = ' ; '.join(log)[-160:]
    if exp is None or got is None:
        E.prove('read-reflects-current-state', exp is None and got is None, sig=sig)
    else:
        E.prove('read-reflects-current-state', E.eq(got, exp), sig=sig)


def new_T(E, k):
    return E.real(f'T{k}', lo=200, hi=600, nice=(280, 400))


def new_P(E, k):
    return E.real(f'P{k}', lo=1e3, hi=1e7, nice=(5e4, 5e5))


def new_flow(E, k):
    x = E.real(f'w{k}', nice=(0.5, 40))
    E.assume(x > 0)
    return x


def mk(E, phase='l'):
    th = _fx['th']
    s, fl = S.mk_stream(E, 'f', th, phase, presence=[1, 1])
    s._thermo = StubThermo(th, E)
    s._thermal_condition._T = new_T(E, 'a')
    s._thermal_condition._P = new_P(E, 'a')
    return s


def g_proxy(depth, props):
    """reads through the stream and through its proxy interleaved with T/P/flow/phase changes"""
    def run(E):
        s = mk(E)
        early = E.choice(2, 'proxy-created-first')
        p = s.proxy() if early else None
        log = ['proxy' if early else '']
        T_first = s.T
        for k in range(depth):
            ops = ['read-s', 'T:=', 'T:=back', 'write-flow', 'phase:=', 'read-p' if p is not None else 'proxy']
            op = E.pick(ops, f'op{k}')
            if op == 'read-s':
                read(E, s, E.pick(props, f'prop{k}'), 's', log, k)
            elif op == 'read-p':
                read(E, p, E.pick(props, f'prop{k}'), 'proxy', log, k)
            elif op == 'proxy':
                p = s.proxy()
                log.append('proxy')
            elif op == 'T:=':
                s.T = new_T(E, k)
                log.append('T:=')
            elif op == 'T:=back':
                s.T = T_first
                log.append('T:=first')
            elif op == 'write-flow':
                s.imol.data[E.choice(N, f'i{k}')] = new_flow(E, k)
                log.append('write-flow')
            else:
                s.phase = 'g' if s.phase == 'l' else 'l'
                log.append('phase:=')
    return run


def g_link(depth, props):
    def run(E):
        s = mk(E)
        th = _fx['th']
        t = tmo.Stream(None, thermo=th)
        t._thermo = StubThermo(th, E)
        flags = E.pick([(True, True, True), (True, False, True), (True, True, False), (False, True, True)], 'link-flags')
        S.inject(t.imol.data, [new_flow(E, 'ta'), new_flow(E, 'tb')])
        t._thermal_condition._T = new_T(E, 'b')
        t._thermal_condition._P = new_P(E, 'b')
        t.link_with(s, *flags)
        log = [f'link{flags}']
        for k in range(depth):
            op = E.pick(['read-s', 'read-t', 'T:=s', 'P:=t', 'write-flow-s', 'write-flow-t', 'unlink-t'], f'op{k}')
            if op == 'read-s':
                read(E, s, E.pick(props, f'prop{k}'), 's', log, k)
            elif op == 'read-t':
                read(E, t, E.pick(props, f'prop{k}'), 'linked', log, k)
            elif op == 'T:=s':
                s.T = new_T(E, k)
                log.append('T:=s')
            elif op == 'P:=t':
                t.P = new_P(E, k)
                log.append('P:=t')
            elif op == 'write-flow-s':
                s.imol.data[E.choice(N, f'i{k}')] = new_flow(E, k)
                log.append('write-flow-s')
            elif op == 'write-flow-t':
                t.imol.data[E.choice(N, f'i{k}')] = new_flow(E, k)
                log.append('write-flow-t')
            else:
                t.unlink()
                log.append('unlink-t')
    return run


def g_multi(depth, props):
    def run(E):
        th = _fx['th']
        ms, fl = S.mk_multistream(E, 'm', th, phases='lg', presence=[1, 1])
        ms._thermo = StubThermo(th, E)
        ms._thermal_condition._T = new_T(E, 'a')
        ms._thermal_condition._P = new_P(E, 'a')
        log = []
        views = {}

        def view(ph):
            if ph not in views:
                v = ms[ph]
                v._thermo = ms._thermo
                views[ph] = v
            return views[ph]
        for k in range(depth):
            op = E.pick(['read-ms', 'read-view', 'T:=', 'write-via-view', 'write-via-ms', 'move-between-phases', 'empty-phase'], f'op{k}')
            if op == 'read-ms':
                read(E, ms, E.pick([p for p in props if p != 'mu'] or ['H'], f'prop{k}'), 'ms', log, k)
            elif op == 'read-view':
                ph = E.pick('lg', f'ph{k}')
                read(E, view(ph), E.pick(props, f'prop{k}'), f'view-{ph}', log, k)
            elif op == 'T:=':
                ms.T = new_T(E, k)
                log.append('T:=')
            elif op == 'write-via-view':
                ph = E.pick('lg', f'ph{k}')
                view(ph).imol.data[E.choice(N, f'i{k}')] = new_flow(E, k)
                log.append(f'write-via-view-{ph}')
            elif op == 'write-via-ms':
                ph = E.pick('lg', f'ph{k}')
                ms.imol[ph, th.chemicals.IDs[E.choice(N, f'i{k}')]] = new_flow(E, k)
                log.append(f'write-via-ms-{ph}')
            elif op == 'move-between-phases':
                # total composition unchanged, phase distribution changed
                rows = ms.imol.data.rows
                a, b = rows[0].dct.get(0, 0.0), rows[1].dct.get(0, 0.0)
                ms.imol.data[0, 0] = b
                ms.imol.data[1, 0] = a
                log.append('swap-phase-rows-of-chemical-0')
            else:
                ph = E.pick('lg', f'ph{k}')
                ms.imol[ph] = 0.
                log.append(f'empty-{ph}')
    return run


def g_mutators(depth, props):
    """mutations that change only the total, only the composition, only the phase"""
    def run(E):
        s = mk(E)
        th = _fx['th']
        log = []
        for k in range(depth):
            op = E.pick(['read', 'scale', 'F_mol:=', 'mix_from', 'copy_like', 'phase:=', 'P:=', 'swap-flows', 'empty+refill'], f'op{k}')
            if op == 'read':
                read(E, s, E.pick(props, f'prop{k}'), 's', log, k)
            elif op == 'scale':
                x = E.real(f'k{k}', nice=(0.25, 4))
                E.assume(x > 0)
                s.scale(x)
                log.append('scale')
            elif op == 'F_mol:=':
                s.F_mol = new_flow(E, k)
                log.append('F_mol:=')
            elif op in ('mix_from', 'copy_like'):
                o = tmo.Stream(None, thermo=th)
                S.inject(o.imol.data, [new_flow(E, f'{k}a'), new_flow(E, f'{k}b')])
                o._thermal_condition._T = new_T(E, f'{k}o')
                if op == 'mix_from':
                    s.mix_from([s, o], energy_balance=False)
                else:
                    real_thermo = s._thermo
                    s.copy_like(o)
                    s._thermo = real_thermo
                log.append(op)
            elif op == 'phase:=':
                s.phase = 'g' if s.phase == 'l' else 'l'
                log.append('phase:=')
            elif op == 'P:=':
                s.P = new_P(E, k)
                log.append('P:=')
            elif op == 'swap-flows':
                d = s.imol.data
                a, b = d.dct.get(0, 0.0), d.dct.get(1, 0.0)
                d[0] = b
                d[1] = a
                log.append('swap-flows')
            else:
                s.empty()
                read(E, s, 'H', 's(empty)', log, f'{k}e')
                s.imol.data[0] = new_flow(E, k)
                log.append('empty+refill')
    return run


def groups(tier):
    q = tier == 'quick'
    d = 5 if q else 6
    props = ['H', 'mu'] if q else ['H', 'mu', 'Hvap']
    return {
        'stream+proxy': (g_proxy(d, ['H'] if q else ['H', 'mu']), dict(max_paths=3000000)),
        'stream+linked': (g_link(3 if q else 4, ['H']), dict(max_paths=3000000)),
        'multistream+views': (g_multi(3 if q else 4, ['H', 'mu']), dict(max_paths=3000000)),
        # per-chemical volumetric flows (quantities derived from the molar volumes) of linked streams: C11's
        # sequence explorer restricted to link -> state change / write on either stream
        'volumetric-reads-of-linked-streams': (c11.g_sequences(2, ['l'], [['link'], ['phase:=', 'T:=', 'write', 'write-other', 'unlink-other']]),
                                               dict(max_paths=400000, qtimeout_ms=20000)),
        'mutators': (g_mutators(3 if q else 4, props), dict(max_paths=3000000)),
    }
