"""C13 — copies are independent, links share what they advertise, pickles round-trip."""
import pickle

import thermosteam as tmo

from symx import core
from . import common as C
from . import streams as S
from . import c11

ID = 'C13'
REAL_REPLAY = False
STUBS = []
ASSUMPTIONS = ['flows symbolic over an explicit presence pattern, T/P/price symbolic',
               'symbolic numbers survive pickle.dumps/loads through a term-serialising __reduce__ on the proxy (floats in replays)',
               'Chemical / Thermo pickles are exercised concretely only (no symbolic content)']
OUTSIDE = ['more than 2 chemicals', 'sequences longer than copy/link + two mutations']
BOUNDS = {'quick': dict(chemicals=2, kinds='Stream l/g, MultiStream lg, MultiStream holding one phase', packages='A2 B2'),
          'thorough': dict(chemicals=2, kinds='as quick + s/L phases', packages='A2 B2 D1')}
N = 2
_fx = {}


def setup(mode):
    sym = C.begin_setup(mode)
    if not _fx:
        pk = S.packages()
        _fx.update(A=pk['A2'], B=pk['B2'])
    if sym:
        C.patch(S.SYM_MODULES)
        C.setg(C.mod('thermosteam.base.sparse').SparseVector, 'dtype', core.symfloat)
    c11.install(sym)        # package with unknown molar volumes for the views of linked streams



def mk(E, name, kind, th):
    """kind: phase letter | 'ms:lg' | 'ms1:l' (multi-phase object holding only phase l, other row empty)"""
    if kind.startswith('ms1:'):
        ph = kind[4:]
        s, fl = S.mk_multistream(E, name, th, phases='lg' if ph in 'lg' else ph + 'l',
                                 flows={p: (S.sym_flows(E, f'{name}{p}', th.chemicals.size, [1] * th.chemicals.size) if p == ph
                                            else [0.0] * th.chemicals.size) for p in ('lg' if ph in 'lg' else ph + 'l')})
    elif kind.startswith('msP:'):
        # a MultiStream whose phase tuple has a single phase
        s, fl = S.mk_multistream(E, name, th, phases=(kind[4:],))
    elif kind.startswith('ms:'):
        s, fl = S.mk_multistream(E, name, th, phases=kind[3:])
    else:
        s, fl = S.mk_stream(E, name, th, kind)
    s._thermal_condition._T = E.real(f'{name}T', lo=200, hi=600, nice=(280, 400))
    s._thermal_condition._P = E.real(f'{name}P', lo=1e3, hi=1e7, nice=(5e4, 5e5))
    return s


def state(s):
    """observable state: {phase: {CAS: flow}} (non-empty entries), T, P"""
    cas = s.chemicals.CASs
    d = s.imol.data
    fl = {}
    if hasattr(d, 'rows'):
        for ph, r in zip(s.imol._phases, d.rows):
            fl[ph] = {cas[i]: x for i, x in r.dct.items()}
    else:
        fl[s.phase] = {cas[i]: x for i, x in d.dct.items()}
    return dict(flows=fl, T=s.T, P=s.P, kind=type(s).__name__)


def same_flows(E, a, b, up_to_case=False):
    """non-empty phase contents equal"""
    fa = {p: v for p, v in a['flows'].items() if v}
    fb = {p: v for p, v in b['flows'].items() if v}
    if fa.keys() != fb.keys():
        return False
    conds = []
    for p in fa:
        if fa[p].keys() != fb[p].keys():
            return False
        conds.extend(E.eq(fa[p][k], fb[p][k]) for k in fa[p])
    return E.all(conds)


def same_state(E, a, b):
    return E.all([same_flows(E, a, b), E.eq(a['T'], b['T']), E.eq(a['P'], b['P'])])


def identical(E, a, b):
    """b is a's earlier snapshot: nothing may have changed (term identity / float equality)"""
    if a['flows'].keys() != b['flows'].keys() and {p for p, v in a['flows'].items() if v} != {p for p, v in b['flows'].items() if v}:
        return False
    for p, v in b['flows'].items():
        w = a['flows'].get(p, {})
        if v.keys() != w.keys():
            return False
        for k in v:
            if not (v[k] is w[k] or (E.concrete and v[k] == w[k])):
                return False
    for p, w in a['flows'].items():
        if w and p not in b['flows']:
            return False
    return (a['T'] is b['T'] or (E.concrete and a['T'] == b['T'])) and (a['P'] is b['P'] or (E.concrete and a['P'] == b['P']))


def mutate(E, s, tag, what):
    if what == 'flow':
        w = E.real(f'{tag}w', nice=(0.5, 40))
        E.assume(w > 0)
        d = s.imol.data
        if hasattr(d, 'rows'):
            d.rows[0][0] = w
        else:
            d[0] = w
    elif what == 'T':
        s.T = E.real(f'{tag}Tn', lo=200, hi=600, nice=(280, 400))
    elif what == 'P':
        s.P = E.real(f'{tag}Pn', lo=1e3, hi=1e7, nice=(5e4, 5e5))
    elif what == 'phase':
        if isinstance(s, tmo.MultiStream):
            raise core.PathAbort('phase mutation on single-phase streams only')
        s.phase = 'g' if s.phase == 'l' else 'l'
    elif what == 'empty':
        s.empty()


MUTS = ['flow', 'T', 'P', 'phase', 'empty']


def g_copy(kinds):
    def run(E):
        kind = E.pick(kinds, 'kind')
        a = mk(E, 'a', kind, _fx['A'])
        how = E.pick(['copy', 'copy.copy', 'copy-to-other-package'], 'how')
        s0 = state(a)
        if how == 'copy':
            b = a.copy()
        elif how == 'copy.copy':
            import copy as _c
            b = _c.copy(a)
        else:
            b = a.copy(thermo=_fx['B'])
        sig = f'{kind}/{how}'
        E.prove('copy-has-same-state', same_state(E, state(b), s0), sig=sig)
        E.prove('copy-is-new-object', b is not a and b.imol is not a.imol and b.imol.data is not a.imol.data
                and b._thermal_condition is not a._thermal_condition, sig=sig)
        what = E.pick(MUTS, 'mutation')
        side = E.pick(['original', 'copy'], 'mutated-side')
        sa, sb = state(a), state(b)
        mutate(E, a if side == 'original' else b, 'm', what)
        if side == 'original':
            E.prove('change-of-original-invisible-in-copy', identical(E, state(b), sb), sig=f'{sig}/{what}')
        else:
            E.prove('change-of-copy-invisible-in-original', identical(E, state(a), sa), sig=f'{sig}/{what}')
    return run


def g_copy_like(tkinds, skinds):
    def run(E):
        tk = E.pick(tkinds, 'target-kind')
        sk = E.pick(skinds, 'source-kind')
        spk = E.pick(['A', 'B'], 'source-package')
        t = mk(E, 't', tk, _fx['A'])
        s = mk(E, 's', sk, _fx[spk])
        what = E.pick(['copy_like', 'copy_thermal_condition', 'copy_flow'], 'operation')
        sig = f'{what}: {sk}[{spk}] -> {tk}'
        s0 = state(s)
        t0 = state(t)
        if what == 'copy_like':
            t.copy_like(s)
            E.prove('copy_like-makes-flows-equal', same_flows(E, state(t), s0), sig=sig)
            E.prove('copy_like-makes-T-and-P-equal', E.all([E.eq(t.T, s0['T']), E.eq(t.P, s0['P'])]), sig=sig)
        elif what == 'copy_thermal_condition':
            t.copy_thermal_condition(s)
            E.prove('copy_like-makes-T-and-P-equal', E.all([E.eq(t.T, s0['T']), E.eq(t.P, s0['P'])]), sig=sig)
            E.prove('flows-untouched', same_flows(E, state(t), t0), sig=sig)
        else:
            raise core.PathAbort('copy_flow is covered by C01')
        E.prove('source-unchanged', identical(E, state(s), s0), sig=sig)
        # independence afterwards
        snap = state(t)
        mutate(E, s, 'm', E.pick(['flow', 'T'], 'mutation'))
        E.prove('later-change-of-source-invisible-in-target', identical(E, state(t), snap), sig=sig)
    return run


def g_sharing():
    def run(E):
        kind = E.pick(['l', 'ms:lg'], 'kind')
        a = mk(E, 'a', kind, _fx['A'])
        how = E.pick(['proxy', 'flow_proxy', 'link:flow+phase+TP', 'link:flow', 'link:TP', 'link:phase', 'link:flow+TP', 'link-then-unlink'], 'how')
        if kind != 'l' and how in ('link:phase',):
            raise core.PathAbort('phase link on single-phase only')
        flags = None
        if how == 'proxy':
            b = a.proxy()
            share = dict(flow=True, TP=True, phase=True)
        elif how == 'flow_proxy':
            b = a.flow_proxy()
            share = dict(flow=True, TP=False, phase=False)
        else:
            b = mk(E, 'b', kind, _fx['A'])
            sel = how.split(':')[1] if ':' in how else 'flow+phase+TP'
            flags = dict(flow='flow' in sel, phase='phase' in sel, TP='TP' in sel)
            b.link_with(a, **flags)
            share = dict(flags)
        sig = f'{kind}/{how}'
        if how == 'link-then-unlink':
            before_b = state(b)
            who = E.pick(['linked', 'original'], 'who-unlinks')
            (b if who == 'linked' else a).unlink()
            sig += f'/{who}'
            E.prove('unlink-preserves-values', same_state(E, state(b), before_b), sig=sig)
            share = dict(flow=False, TP=False, phase=False)
        if kind == 'ms:lg':
            for x, nm in ((a, 'original'), (b, 'other')):
                eqo = x.vle
                E.prove('equilibrium-solver-acts-on-the-streams-own-state',
                        eqo._thermal_condition is x._thermal_condition and eqo._imol is x._imol, sig=f'{sig}/{nm}')
        # mutate a, look at b -- and the other way round
        for side in ('a', 'b'):
            src, dst = (a, b) if side == 'a' else (b, a)
            w = E.real(f'{side}w', nice=(0.5, 40))
            E.assume(w > 0)
            old = S.totals(dst)[0]
            d = src.imol.data
            if hasattr(d, 'rows'):
                d.rows[0][0] = w
                seen = dst.imol.data.rows[0].dct.get(0, 0.0)
            else:
                d[0] = w
                seen = dst.imol.data.dct.get(0, 0.0)
            if share['flow']:
                E.prove('flows-shared', E.eq(seen, w), sig=f'{sig}/write-{side}')
            else:
                E.prove('flows-not-shared', seen is not w, sig=f'{sig}/write-{side}')
            Tn = E.real(f'{side}Tn', lo=200, hi=600, nice=(280, 400))
            oldT = dst.T
            src.T = Tn
            if share['TP']:
                E.prove('T-and-P-shared', E.eq(dst.T, Tn), sig=f'{sig}/T-{side}')
            else:
                E.prove('T-and-P-not-shared', dst.T is oldT or (E.concrete and dst.T == oldT), sig=f'{sig}/T-{side}')
            if kind == 'l':
                oldp = dst.phase
                src.phase = 'g' if src.phase == 'l' else 'l'
                if share['phase']:
                    E.prove('phase-shared', dst.phase == src.phase, sig=f'{sig}/phase-{side}')
                else:
                    E.prove('phase-not-shared', dst.phase == oldp, sig=f'{sig}/phase-{side}')
    return run


def g_pickle():
    def run(E):
        kind = E.pick(['l', 'g', 'ms:lg', 'ms1:l', 'msP:g'], 'kind')
        th = _fx['A']
        price = E.real('price', lo=0, nice=(0.01, 5))
        cf = E.real('cf', nice=(0.1, 9))
        with_cf = E.choice(2, 'characterization-factors-given')
        T = E.real('T', lo=200, hi=600, nice=(280, 400))
        P = E.real('P', lo=1e3, hi=1e7, nice=(5e4, 5e5))
        kw = dict(T=T, P=P, price=price, thermo=th)
        if with_cf:
            kw['characterization_factors'] = {'GWP': cf}
        ctor = E.pick(['constructor-only', 'constructor+pickle'], 'route')
        if kind.startswith('ms'):
            a = tmo.MultiStream(None, phases=('g',) if kind == 'msP:g' else 'lg', **kw)
            rows = {'l': S.sym_flows(E, 'fl', N, [1, 1]) if kind != 'msP:g' else None,
                    'g': S.sym_flows(E, 'fg', N, [1, 1] if kind in ('ms:lg', 'msP:g') else [0, 0])}
            for ph, r in zip(a.imol._phases, a.imol.data.rows):
                S.inject(r, rows[ph])
        else:
            a = tmo.Stream(None, phase=kind, **kw)
            S.inject(a.imol.data, S.sym_flows(E, 'f', N, [1, 1]))
        sig = f'{kind}/{ctor}/cf={with_cf}'
        E.prove('constructor-keeps-price', E.eq(a.price, price), sig=sig)
        E.prove('constructor-keeps-characterization-factors',
                (a.characterization_factors.keys() == {'GWP'} and E.eq(a.characterization_factors['GWP'], cf)) if with_cf
                else a.characterization_factors == {}, sig=sig)
        E.prove('constructor-keeps-T-and-P', E.all([E.eq(a.T, T), E.eq(a.P, P)]), sig=sig)
        if ctor == 'constructor-only':
            return
        if with_cf and not a.characterization_factors:
            a.characterization_factors['GWP'] = cf       # make the pickle leg independent of the constructor leg
        b = pickle.loads(pickle.dumps(a))
        if kind != 'msP:g':      # a one-phase multi-stream comes back as the equivalent single-phase stream
            E.prove('pickle-roundtrip-class', type(b) is type(a), sig=sig)
        E.prove('pickle-roundtrip-state', same_state(E, state(b), state(a)), sig=sig)
        E.prove('pickle-roundtrip-price', E.eq(b.price, a.price), sig=sig)
        E.prove('pickle-roundtrip-characterization-factors',
                b.characterization_factors.keys() == a.characterization_factors.keys()
                and E.all([E.eq(b.characterization_factors[k], a.characterization_factors[k]) for k in a.characterization_factors]), sig=sig)
        E.prove('pickle-roundtrip-phases', set(b.phases) == set(a.phases), sig=sig)
    return run


def g_pickle_objects():
    """reaction / chemical / property package pickles (concrete objects)"""
    def run(E):
        th = _fx['A']
        what = E.pick(['reaction', 'chemical', 'thermo', 'indexer'], 'object')
        if what == 'reaction':
            X = 0.375
            r = tmo.Reaction('Ethanol -> Water', reactant='Ethanol', X=X, chemicals=th.chemicals)
            r2 = pickle.loads(pickle.dumps(r))
            E.prove('pickle-roundtrip-state', E.eq(r2.X, X) and r2.reactant == r.reactant and r2._stoichiometry.dct == r._stoichiometry.dct
                    and r2._basis == r._basis, sig=what)
        elif what == 'chemical':
            c = th.chemicals.Water
            c2 = pickle.loads(pickle.dumps(c))
            E.prove('pickle-roundtrip-state', c2.ID == c.ID and c2.CAS == c.CAS and c2.MW == c.MW and c2.Tb == c.Tb
                    and c2.phase_ref == c.phase_ref and abs(c2.Psat(350.) - c.Psat(350.)) < 1e-9, sig=what)
        elif what == 'thermo':
            t2 = pickle.loads(pickle.dumps(th))
            E.prove('pickle-roundtrip-state', t2.chemicals.IDs == th.chemicals.IDs and type(t2.mixture) is type(th.mixture)
                    and type(t2.Gamma) is type(th.Gamma), sig=what)
        else:
            s, fl = S.mk_stream(E, 'f', th, 'l', presence=[1, 1])
            i2 = pickle.loads(pickle.dumps(s.imol))
            E.prove('pickle-roundtrip-state', i2.phase == 'l' and E.all([E.eq(i2.data.dct.get(i, 0.0), fl[i]) for i in range(N)]), sig=what)
    return run


def groups(tier):
    q = tier == 'quick'
    kinds = ['l', 'g', 'ms:lg', 'ms1:l', 'msP:g'] if q else ['l', 'g', 's', 'L', 'ms:lg', 'ms1:l', 'ms1:g', 'msP:g', 'msP:l']
    return {
        'copy': (g_copy(kinds), dict(max_paths=400000)),
        'copy_like': (g_copy_like(['l', 'g', 'ms:lg'] if q else ['l', 'g', 'ms:lg', 'ms:ls'],
                                  ['l', 'g', 'ms:lg', 'ms1:l', 'ms1:g', 's', 'msP:g', 'ms:ls'] if not q else ['l', 'g', 'ms:lg', 'ms1:l', 's', 'msP:g', 'ms:ls']),
                      dict(max_paths=400000)),
        'proxy-and-links': (g_sharing(), dict(max_paths=400000)),
        # linking shares exactly the selected parts: with the phase NOT linked, the mass / volumetric views of the
        # two streams follow their own phases (C11's sequence explorer: link, then a phase change or a write)
        'views-of-partially-linked-streams': (c11.g_sequences(2, ['l'], [['link'], ['phase:=', 'write-other']], check_last_only=True),
                                              dict(max_paths=400000, qtimeout_ms=20000)),
        'stream-pickles': (g_pickle(), dict(max_paths=400000)),
        'object-pickles': (g_pickle_objects(), {}),
    }
