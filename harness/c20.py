"""C20 — separation helper functions close the material balance and meet their targets."""
import thermosteam as tmo

from symx import core, isolation
from . import common as C
from . import streams as S
from . import c03

ID = 'C20'
REAL_REPLAY = False
STUBS = ['(partition) the phase fraction returned by the stub ranges over the concrete values -0.25, 0, 0.125, 0.5, 0.875, 1, 1.5 (symbolic phi makes every flow a rational function and z3 needs ~20 s per query)',
         'thermo.mixture of every stream: H uninterpreted, solve_T_at_HP returns a fresh temperature (energy balance inside mix_and_split)',
         'separations.compute_phase_fraction (Rachford-Rice root finder): returns a fresh phase fraction (any real number; the real code clamps it)',
         '(rachford-rice-shortcuts) flexsolve.find_bracket keeps the bracket, flexsolve.IQ_interpolation returns a fresh point of the bracket under the contract f(point) == 0; K from 7 concrete pairs / triples',
         '(material_balance) numpy.linalg.solve: fresh vector under the contract A x = b',
         'LLE solver inside the lle wrapper: fresh split with 0 <= l_i <= mol_i (as in C03)']
ASSUMPTIONS = ['feeds symbolic >= 0 on a presence pattern, splits in [0,1], moisture in (0, 0.95), efficiency in [0,1]; partition coefficients from three concrete pairs (2, 0.5), (0.25, 8), (1e-3, 1e3)',
               'outlets start empty (quick) or with arbitrary previous contents (thorough, separate group)']
OUTSIDE = ["material_balance(balance='composition') (an iteration) and the accuracy of numpy.linalg.solve itself (taken at its contract A x = b)", 'the vle wrapper beyond what C03 decides', 'more than 4 chemicals']
BOUNDS = {'quick': dict(chemicals=4, inlets='<=2'), 'thorough': dict(chemicals=4, inlets='<=2', outlets='dirty')}
IDS = ['Water', 'Ethanol', 'Octanol', 'O2']
_fx = {}


def setup(mode):
    sym = C.begin_setup(mode)
    if not _fx:
        chems = tmo.Chemicals(IDS, cache=True)
        tmo.settings.set_thermo(chems, cache=True)
        _fx['th'] = th = tmo.settings.get_thermo()
        _fx['MW'] = [float(x) for x in th.chemicals.MW]
        isolation.track(th.chemicals._index_cache)
        chemsB = tmo.Chemicals([IDS[2], IDS[0], IDS[3], IDS[1]], cache=True)
        tmo.settings.set_thermo(chemsB, cache=True)
        _fx['thB'] = tmo.settings.get_thermo()
        isolation.track(_fx['thB'].chemicals._index_cache)
        tmo.settings.set_thermo(th)
    if sym:
        C.patch(S.SYM_MODULES + ['thermosteam.separations', 'thermosteam.equilibrium.lle', 'thermosteam.equilibrium.binary_phase_fraction'])
        C.setg(C.mod('thermosteam.base.sparse').SparseVector, 'dtype', core.symfloat)


N = 4


def flows(s):
    return [s.imol.data.dct.get(i, 0.0) for i in range(N)]


class _Mixture(c03.StubMixture):
    def solve_T_at_HP(self, phase, mol, H, T, P):
        self.k += 1
        self.E.stub_called('solve_T')
        return self.E.real(f'Tsolved{self.k}', lo=200., hi=600., nice=(300, 400))


def mk(E, name, presence=None, phase='l'):
    s, fl = S.mk_stream(E, name, _fx['th'], phase, presence=presence)
    # energy balances inside the helpers: enthalpy model uninterpreted, temperature solve stubbed
    th = c03.StubThermo(_fx['th'], E)
    th.mixture = _Mixture(E, N)
    s._thermo = th
    return s, fl


def outlet(E, name, dirty):
    return mk(E, name, [1] * N if dirty else [0] * N)


def g_mix_and_split(dirty, other_package=False):
    def run(E):
        sep = C.mod('thermosteam.separations')
        n_in = 1 + E.choice(2, 'n-inlets')
        ins, tot = [], [0.0] * N
        for j in range(n_in):
            pres = [E.choice(2, f'i{j}-water?'), 1, E.choice(2, f'i{j}-octanol?') if j == 0 else 0, 0 if j == 0 else 1]
            if other_package:
                # inlets defined on another property package (same chemicals, another order)
                thB = _fx['thB']
                fl = S.sym_flows(E, f'i{j}_', N, pres)                       # in IDS order
                s = tmo.Stream(None, thermo=thB)
                S.inject(s.imol.data, [fl[IDS.index(c)] for c in thB.chemicals.IDs])
                stub = c03.StubThermo(thB, E)
                stub.mixture = _Mixture(E, N)
                s._thermo = stub
            else:
                s, fl = mk(E, f'i{j}_', pres)
            ins.append(s)
            tot = [a + b for a, b in zip(tot, fl)]
        top, _ = outlet(E, 't', dirty)
        bot, _ = outlet(E, 'b', dirty)
        kind = E.pick(['scalar', 'vector'], 'split-kind')
        if kind == 'scalar':
            x = E.real('split', lo=0, hi=1, nice=(0.1, 0.9))
            split, sv = x, [x] * N
        else:
            sv = [E.real(f'split{i}', lo=0, hi=1, nice=(0.1, 0.9)) for i in range(N)]
            split = C.array(E, sv)
        sep.mix_and_split(ins, top, bot, split)
        ft, fb = flows(top), flows(bot)
        for i in range(N):
            E.observe(f't{i}', ft[i])
        sig = f'inlets={n_in}/{kind}/dirty={dirty}/other-package={other_package}'
        E.prove('outlets-sum-to-inlets', E.all([E.eq(a + b, c) for a, b, c in zip(ft, fb, tot)]), sig=sig)
        E.prove('top-is-split-times-mixed', E.all([E.eq(a, s_ * c) for a, s_, c in zip(ft, sv, tot)]), sig=sig)
        E.prove('no-negative-flow', E.all([E.ge(x, 0.0) for x in ft + fb]), sig=sig)
    return run


def g_moisture():
    def run(E):
        sep = C.mod('thermosteam.separations')
        MW = _fx['MW']
        ret, fr = mk(E, 'r', [E.choice(2, 'retentate-water?'), 1, E.choice(2, 'octanol?'), 0])
        per, fp = mk(E, 'p', [1, E.choice(2, 'permeate-ethanol?'), 0, 0])
        mc = E.real('moisture', lo=0, hi=0.95, lo_open=True, nice=(0.1, 0.8))
        E.assume(mc > 0)
        how = E.pick(['default-water', 'by-ID'], 'how')
        strict = E.pick([None, False], 'strict')
        before = [a + b for a, b in zip(fr, fp)]
        sig = f'{how}/strict={strict}'
        try:
            if how == 'default-water':
                sep.adjust_moisture_content(ret, per, mc, strict=strict)
            else:
                sep.adjust_moisture_content(ret, per, mc, ID='Water', strict=strict)
        except tmo.exceptions.InfeasibleRegion:
            # legitimate only if the permeate lacks the water the retentate needs
            dry = sum(fr[i] * MW[i] for i in range(1, N))
            need = dry * mc / (1 - mc) / MW[0] - fr[0]
            E.prove('infeasible-only-when-water-is-lacking', need > fp[0] if not E.concrete else need > fp[0] - 1e-9, sig=sig)
            return
        ar, ap = flows(ret), flows(per)
        E.observe('water_ret', ar[0])
        E.prove('outlets-sum-to-inlets', E.all([E.eq(a + b, c) for a, b, c in zip(ar, ap, before)]), sig=sig)
        E.prove('no-negative-flow', E.all([E.ge(x, 0.0) for x in ar + ap]), sig=sig)
        E.prove('only-water-moves', E.all([E.eq(ar[i], fr[i]) for i in range(1, N)]), sig=sig)
        mass = sum(ar[i] * MW[i] for i in range(N))
        reached = E.eq(ar[0] * MW[0], mc * mass)
        if strict is False:
            # non-strict mode gives the retentate whatever water there is when it is not enough
            dry = sum(fr[i] * MW[i] for i in range(1, N))
            need = dry * mc / (1 - mc) / MW[0] - fr[0]
            enough = need <= fp[0]
            E.prove('moisture-fraction-reached', E.implies(enough, reached), sig=sig)
        else:
            E.prove('moisture-fraction-reached', reached, sig=sig)
    return run


def g_partition(dirty, forced_choices=('none', 'top:O2', 'bottom:Octanol', 'both')):
    def run(E):
        sep = C.mod('thermosteam.separations')
        feed, ff = mk(E, 'f', [1, 1, 1, E.choice(2, 'o2?')])
        top, _ = outlet(E, 't', dirty)
        bot, _ = outlet(E, 'b', dirty)
        forced = E.pick(forced_choices, 'forced')
        IDs = ('Water', 'Ethanol')
        # partition coefficients: concrete pairs (symbolic K makes the Rachford-Rice algebra degree 6 and z3's
        # nlsat then needs minutes per query); feeds and the phase fraction stay symbolic
        K = list(E.pick([(2.0, 0.5), (0.25, 8.0), (1e-3, 1e3)], 'K'))
        phi_val = E.pick([-0.25, 0.0, 0.125, 0.5, 0.875, 1.0, 1.5], 'phi-returned-by-the-root-finder')
        strict = bool(E.choice(2, 'strict'))
        kw = {}
        if forced in ('top:O2', 'both'):
            kw['top_chemicals'] = ('O2',)
        if forced in ('bottom:Octanol', 'both'):
            kw['bottom_chemicals'] = ('Octanol',)
        C.setg(sep, 'compute_phase_fraction', lambda *a, **k: (E.stub_called('compute_phase_fraction'), phi_val)[1])
        sig = f'forced={forced}/strict={strict}/dirty={dirty}'
        try:
            phi = sep.partition(feed, top, bot, IDs, C.array(E, K), strict=strict, **kw)
        except tmo.exceptions.InfeasibleRegion:
            E.prove('infeasible-only-in-strict-mode', strict, sig=sig)
            return
        ft, fb = flows(top), flows(bot)
        for i in range(N):
            E.observe(f't{i}', ft[i])
        E.prove('outlets-sum-to-inlets', E.all([E.eq(a + b, c) for a, b, c in zip(ft, fb, ff)]), sig=sig)
        if not dirty:
            E.prove('no-negative-flow', E.all([E.ge(x, 0.0) for x in ft + fb]), sig=sig)
            # partition coefficients reproduced when both outlets hold both chemicals
            if not E.concrete:
                inside = (phi_val > 0) & (phi_val < 1)
            else:
                inside = 0 < phi_val < 1
            Ft, Fb = sum(ft), sum(fb)
            # y_i / x_i = K_i * c  <=>  (t0/b0)/K0 == (t1/b1)/K1  (cross-multiplied; totals cancel)
            cross = E.eq(ft[0] * fb[1] * K[1], ft[1] * fb[0] * K[0])
            nonempty = E.all([x > 0 if isinstance(x, core.SymNum) else x > 0 for x in (ft[0], ft[1], fb[0], fb[1])])
            unclipped = E.all([fb[i] < ff[i] if isinstance(fb[i], core.SymNum) or isinstance(ff[i], core.SymNum) else fb[i] < ff[i] for i in (0, 1)])
            E.prove('partition-coefficients-reproduced-up-to-a-common-factor',
                    E.implies(E.all([inside, nonempty, unclipped]), cross), sig=sig)
            if forced in ('top:O2', 'both'):
                E.prove('forced-top-chemical-in-top', E.eq(fb[3], 0.0), sig=sig)
            if forced in ('bottom:Octanol', 'both'):
                E.prove('forced-bottom-chemical-in-bottom', E.eq(ft[2], 0.0), sig=sig)
    return run


class _RRFlx:
    """flexsolve inside binary_phase_fraction.py: find_bracket keeps the bracket it was given, IQ_interpolation returns
    a fresh point of the bracket that is a root of the function it was handed (the root finder's contract)"""
    def __init__(self, E, real):
        self.E, self.real = E, real

    def __getattr__(self, n):
        return getattr(self.real, n)

    def find_bracket(self, f, x0, x1, y0, y1, args=(), **kw):
        return x0, x1, y0, y1

    def IQ_interpolation(self, f, x0, x1, y0, y1, x=None, xtol=0., ytol=0., args=(), **kw):
        E = self.E
        E.stub_called('IQ_interpolation')
        r = E.real('phi_root', lo=0, hi=1, nice=(0.1, 0.9))
        E.assume(E.all([r >= x0, r <= x1]) if not E.concrete else True)
        E.assume(E.eq(f(r, *args), 0.0), 'root finder contract: f(root) == 0')
        return r


def g_rachford_rice():
    """binary_phase_fraction.phase_fraction (what partition / phase_fraction call): the shortcuts that answer 0 or 1
    WITHOUT solving are taken only when the Rachford-Rice function with forced top / bottom fractions has no root
    strictly inside (0, 1); otherwise the answer is a root (contract of the stubbed root finder) clamped to [0, 1]"""
    def run(E):
        b = C.mod('thermosteam.equilibrium.binary_phase_fraction')
        real = b.flx.real if isinstance(b.flx, _RRFlx) else b.flx
        C.setg(b, 'flx', _RRFlx(E, real))
        Ks = list(E.pick([(2.0, 0.5), (1.5, 3.0), (0.5, 0.25), (1e-3, 1e3), (1.5, 3.0, 8.0), (0.5, 0.25, 0.125), (2.0, 0.5, 0.9)], 'K'))
        n = len(Ks)
        zs = []
        for i in range(n):
            z = E.real(f'z{i}', nice=(0.05, 0.5))
            E.assume(z > 0)
            zs.append(z)
        forced = E.pick(['none', 'top', 'bottom', 'both'], 'forced')
        za = zb = 0.0
        if forced in ('top', 'both'):
            za = E.real('za', nice=(0.05, 0.3))
            E.assume(za > 0)
        if forced in ('bottom', 'both'):
            zb = E.real('zb', nice=(0.05, 0.3))
            E.assume(zb > 0)
        E.assume(E.eq(sum(zs) + za + zb, 1.0), 'fractions sum to one')
        import numpy as np
        phi = b.phase_fraction(C.array(E, zs), np.array(Ks), None, za, zb)
        sig = f'K={tuple(Ks)}/forced={forced}'
        E.observe('phi', phi)
        E.prove('phase-fraction-in-unit-interval', E.all([E.ge(phi, 0.0), E.le(phi, 1.0)]), sig=sig)
        def rr(p):
            return sum(-z * (K - 1.0) / (1.0 + p * (K - 1.0)) for z, K in zip(zs, Ks)) - za / p + zb / (1.0 - p)
        if n == 2 and forced == 'none' and E.all([phi > 0, phi < 1]):
            # two chemicals, nothing forced: closed form instead of the root finder - it must be the root
            E.prove('closed-form-phase-fraction-is-the-root', E.eq(rr(phi), 0.0), sig=sig)
        elif not E.stub_calls.get('IQ_interpolation'):
            # answered without solving: the function must have no root strictly inside the interval
            p = E.real('phi_probe', lo=0, hi=1, nice=(0.05, 0.95))
            # the solver brackets [1e-16, 1 - 1e-16]: a root closer than that to an end is answered by the end itself;
            # the probe stays 1e-9 away from the ends
            E.assume(E.all([p >= 1e-9, p <= 1 - 1e-9]) if not E.concrete else (1e-9 <= p <= 1 - 1e-9))
            E.prove('answered-without-solving-only-when-there-is-no-root-inside', E.ne(rr(p), 0.0), sig=sig)
    return run


class _LinAlg:
    """numpy.linalg inside separations.py: solve(A, b) returns a fresh vector under its contract A x = b"""
    def __init__(self, E):
        self.E = E

    def solve(self, A, b):
        E = self.E
        E.stub_called('linalg.solve')
        n = len(b)
        x = [E.real(f'factor{i}', nice=(0.1, 20)) for i in range(n)]
        for i in range(n):
            E.assume(E.eq(sum(A[i][j] * x[j] for j in range(n)), b[i]), 'linear solver contract: A x = b')
        return C.array(E, x)


def g_material_balance():
    """material_balance(balance='flow'): with the linear solver at its contract (A x = b) the variable inlets are
    scaled (composition kept) so that inlets minus outlets vanish for the chosen chemicals"""
    def run(E):
        from symx import shim
        sep = C.mod('thermosteam.separations')
        if not E.concrete:
            np_ = shim.Shim()
            np_.linalg = _LinAlg(E)
            C.setg(sep, 'np', np_)
        chosen = E.pick([(0, 1), (1, 2), (2, 0)], 'balanced-chemicals')
        IDs = tuple(IDS[i] for i in chosen)
        va, fa = mk(E, 'va', [1, 1, 1, E.choice(2, 'va-o2?')])
        vb, fb = mk(E, 'vb', [1, 1, 1, 0])
        n_const = E.choice(2, 'constant-inlet?')
        ci, fc = mk(E, 'ci', [1, 1, E.choice(2, 'ci-octanol?'), 0]) if n_const else (None, [0.0] * N)
        oa, foa = mk(E, 'oa', [1, 1, 1, 0])
        two_out = E.choice(2, 'second-outlet?')
        ob, fob = mk(E, 'ob', [E.choice(2, 'ob-water?'), 1, 1, 0]) if two_out else (None, [0.0] * N)
        i0, i1 = chosen
        det = fa[i0] * fb[i1] - fa[i1] * fb[i0]
        E.assume(E.ne(det, 0.0) if not E.concrete else abs(det) > 1e-9, 'invertible inlet-composition matrix')
        sep.material_balance(IDs, [va, vb], [ci] if ci is not None else [], [oa] + ([ob] if ob is not None else []))
        na, nb = flows(va), flows(vb)
        for i in range(N):
            E.observe(f'va{i}', na[i])
        sig = f'flow/chosen={IDs}/const={n_const}/outs={1 + two_out}'
        E.prove('inlets-minus-outlets-vanish-for-the-chosen-chemicals',
                E.all([E.eq(na[i] + nb[i] + fc[i], foa[i] + fob[i]) for i in chosen]), sig=sig)
        E.prove('variable-inlets-are-scaled-as-a-whole',
                E.all([E.eq(new[j] * old[k], new[k] * old[j]) for new, old in ((na, fa), (nb, fb)) for j in range(N) for k in range(j + 1, N)]), sig=sig)
    return run


def g_misc():
    def run(E):
        sep = C.mod('thermosteam.separations')
        what = E.pick(['phase_split', 'chemical_splits', 'handle_infeasible'], 'helper')
        th = _fx['th']
        if what == 'phase_split':
            ms, fl = S.mk_multistream(E, 'm', th, phases='lg')
            ms._thermal_condition._T = E.real('T', lo=250, hi=450, nice=(300, 400))
            outs = [tmo.Stream(None, thermo=th) for _ in range(2)]
            sep.phase_split(ms, outs)
            conds = []
            for ph, o in zip(ms.phases, outs):
                conds.append(o.phase == ph)
                conds.extend(E.eq(a, b) for a, b in zip(flows(o), fl[ph]))
                conds.append(E.eq(o.T, ms.T))
            E.prove('each-phase-goes-to-its-own-outlet', E.all(conds), sig=what)
            tot = [sum(fl[ph][i] for ph in ms.phases) for i in range(N)]
            E.prove('outlets-sum-to-inlets', E.all([E.eq(sum(flows(o)[i] for o in outs), tot[i]) for i in range(N)]), sig=what)
        elif what == 'chemical_splits':
            a, fa = mk(E, 'a', [1] * N)
            b, fb = mk(E, 'b', [1, 1, E.choice(2, 'b-octanol?'), 1])
            mixed_given = E.choice(2, 'mixed-given')
            if mixed_given:
                mixed = tmo.Stream(None, thermo=th)
                mixed.mix_from([a, b], energy_balance=False)
                sp = sep.chemical_splits(a, mixed=mixed)
            else:
                sp = sep.chemical_splits(a, b)
            got = [sp.data.dct.get(i, 0.0) for i in range(N)]
            E.prove('splits-times-mixed-give-back-the-first-stream', E.all([E.eq(g * (x + y), x) for g, x, y in zip(got, fa, fb)]), sig=f'{what}/mixed={mixed_given}')
        else:
            mol = [E.real(f'm{i}', nice=(-5, 20)) for i in range(3)]
            mx = [E.real(f'x{i}', lo=0, nice=(0.5, 10)) for i in range(3)]
            strict = bool(E.choice(2, 'strict'))
            arr, mxa = C.array(E, list(mol)), C.array(E, mx)
            try:
                sep.handle_infeasible_flow_rates(arr, mxa, strict)
            except tmo.exceptions.InfeasibleRegion:
                E.prove('infeasible-only-when-out-of-range', strict and E.any([(m < 0) | (m > x) if not E.concrete else (m < 0 or m > x) for m, x in zip(mol, mx)]),
                        sig=f'{what}/strict={strict}')
                return
            res = list(arr)
            conds = []
            for r, m, x in zip(res, mol, mx):
                conds.append(E.ge(r, 0.0))
                conds.append(E.le(r, x))
                conds.append(E.implies((m >= 0) & (m <= x) if not E.concrete else 0 <= m <= x, E.eq(r, m)))
            E.prove('clipped-into-[0,feed]', E.all(conds), sig=f'{what}/strict={strict}')
    return run


def g_lle_wrapper():
    def run(E):
        sep = C.mod('thermosteam.separations')
        lle = C.mod('thermosteam.equilibrium.lle')
        eq = C.mod('thermosteam.equilibrium')
        th = _fx['th']

        class SLLE(lle.LLE):
            __slots__ = ()

            def solve_lle_liquid_mol(self, mol, T, lle_chemicals, *a, **k):
                E.stub_called('solve_lle_liquid_mol')
                out = []
                for i, m in enumerate(mol):
                    x = E.real(f'lsplit{i}', lo=0, nice=(0.01, 30))
                    E.assume(x <= m)
                    out.append(x)
                return C.array(E, out)
        C.setg(lle.LLECache, 'load', SLLE)
        # real property package on these streams: the wrapper builds its LLE object from the feed's package
        feed, ff = S.mk_stream(E, 'f', th, 'l', presence=[1, E.choice(2, 'ethanol?'), 1, 0])
        top, _ = S.mk_stream(E, 't', th, 'l', presence=[0] * N)
        bot, _ = S.mk_stream(E, 'b', th, 'l', presence=[0] * N)
        eff = E.real('efficiency', lo=0, hi=1, nice=(0.2, 0.95))
        use_ms = E.choice(2, 'multi_stream-given')
        ms = tmo.MultiStream(None, thermo=th, phases='lL') if use_ms else None
        sep.lle(feed, top, bot, top_chemical='Octanol', efficiency=eff, multi_stream=ms)
        ft, fb = flows(top), flows(bot)
        sig = f'efficiency/ms={use_ms}'
        E.prove('outlets-sum-to-inlets', E.all([E.eq(a + b, c) for a, b, c in zip(ft, fb, ff)]), sig=sig)
        E.prove('no-negative-flow', E.all([E.ge(x, 0.0) for x in ft + fb]), sig=sig)
        E.prove('feed-unchanged', E.all([E.eq(a, b) for a, b in zip(flows(feed), ff)]), sig=sig)
    return run


BUDGET_S = {'quick': 400, 'thorough': 1200}


def groups(tier):
    q = tier == 'quick'
    g = {
        'mix_and_split': (g_mix_and_split(False), dict(max_paths=400000)),
        'mix_and_split-other-package-inlets-reused-outlets': (g_mix_and_split(True, other_package=True), dict(max_paths=400000)),
        'adjust_moisture_content': (g_moisture(), dict(max_paths=400000, qtimeout_ms=20000)),
        'partition': (g_partition(False, ('none', 'both') if q else ('none', 'top:O2', 'bottom:Octanol', 'both')), dict(max_paths=400000, qtimeout_ms=20000, stubs_required=('compute_phase_fraction',))),
        'rachford-rice-shortcuts': (g_rachford_rice(), dict(max_paths=400000, qtimeout_ms=30000, task_budget_s=200)),
        'material_balance-flow': (g_material_balance(), dict(max_paths=400000, qtimeout_ms=30000, task_budget_s=200, stubs_required=('linalg.solve',))),
        'phase_split-chemical_splits-clipping': (g_misc(), dict(qtimeout_ms=20000)),
    }
    if not q:
        g['lle-wrapper'] = (g_lle_wrapper(), dict(qtimeout_ms=20000, stubs_required=('solve_lle_liquid_mol',), task_budget_s=300))
        g['mix_and_split-dirty-outlets'] = (g_mix_and_split(True), dict(max_paths=400000))
        g['partition-dirty-outlets'] = (g_partition(True), dict(max_paths=400000, qtimeout_ms=20000))
    return g
