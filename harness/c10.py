"""C10 — name-keyed flow access equals positional access, independent of lookup history."""
import itertools

import numpy as np
import thermosteam as tmo

from symx import core, isolation
from . import common as C
from . import streams as S

ID = 'C10'
REAL_REPLAY = False
STUBS = []
ASSUMPTIONS = ['flow values and written values are symbolic reals (present => non-zero)',
               'lookup histories are produced by REAL earlier lookups (k distinct valid keys, k around each cache capacity: 100 for '
               'CompiledChemicals, 500 for MaterialIndexer) and by a real index_overlap call from a package with another order',
               'group composition is concrete (Octane 0.75, Ethanol 0.25 by mol; members listed out of chemical order)']
OUTSIDE = ['chemical sets larger than 4', 'the database alias tables themselves', 'wt-basis group compositions']
BOUNDS = {'quick': dict(chemicals=4, groups=1, aliases=1, phases='lg', cache_fill='0, 99, 100, 101 / 0, 499, 500, 501 (+ poisoning)'),
          'thorough': dict(chemicals=4, groups=1, aliases=1, phases='lg, Lls', cache_fill='as quick + 250, 1200 / 1500')}

IDS = ['Water', 'Ethanol', 'Octane', 'Glucose']
GROUP = ('fuel', ['Octane', 'Ethanol'], [0.75, 0.25])      # listed out of chemical order on purpose
ALIAS = ('Water', 'Agua')
_fx = {}


def setup(mode):
    sym = C.begin_setup(mode)
    if not _fx:
        chems = tmo.Chemicals(IDS, cache=True)
        tmo.settings.set_thermo(chems, cache=True)
        th = tmo.settings.get_thermo()
        th.chemicals.define_group(*GROUP)
        th.chemicals.set_alias(*ALIAS)
        chemsB = tmo.Chemicals(['Octane', 'Water', 'Ethanol'], cache=True)
        tmo.settings.set_thermo(chemsB, cache=True)
        thB = tmo.settings.get_thermo()
        tmo.settings.set_thermo(th)
        # a separately compiled package with the SAME IDs but other group / alias definitions
        chemsX = tmo.Chemicals([tmo.Chemical(i, cache=False) for i in IDS])
        tmo.settings.set_thermo(chemsX, cache=False)
        thX = tmo.settings.get_thermo()
        assert thX.chemicals is not th.chemicals
        thX.chemicals.define_group(GROUP[0], ['Octane', 'Glucose'], [0.5, 0.5])
        thX.chemicals.set_alias('Ethanol', ALIAS[1])
        tmo.settings.set_thermo(th)
        isolation.track(thX.chemicals._index_cache)
        _fx.update(th=th, thB=thB, thX=thX, CAS=[c.CAS for c in th.chemicals])
        isolation.track(th.chemicals._index_cache)
        isolation.track(thB.chemicals._index_cache)
    if sym:
        C.patch(S.SYM_MODULES)
        C.setg(C.mod('thermosteam.base.sparse').SparseVector, 'dtype', core.symfloat)


# ---------------------------------------------------------------- independent oracle
def positions(name):
    """positions for a chemical name / alias / CAS, from the harness' own tables"""
    if name in IDS:
        return IDS.index(name)
    if name == ALIAS[1]:
        return IDS.index(ALIAS[0])
    if name in _fx['CAS']:
        return _fx['CAS'].index(name)
    if name == GROUP[0]:
        return [IDS.index(i) for i in GROUP[1]]
    raise KeyError(name)


def expected_read(key, vec):
    """vec: list of values by position -> expected value(s) for a chemical-level key"""
    if key is ...:
        return list(vec)
    if isinstance(key, str):
        p = positions(key)
        return sum(vec[i] for i in p) if isinstance(p, list) else vec[p]
    out = []
    for k in key:
        p = positions(k)
        out.append(sum(vec[i] for i in p) if isinstance(p, list) else vec[p])
    return out


def name_catalogue(CAS):
    return [
        'Water', 'Agua', CAS[1], 'Glucose',
        ('Water', 'Octane'), ['Ethanol', 'Water'], (CAS[2], 'Agua', 'Glucose'), ('Glucose',),
        'fuel', ('Water', 'fuel'), ('fuel', 'Glucose', 'Agua'), ['fuel'],
        ...,
    ]


def distinct_keys(n, salt=0):
    out = []
    r = 2
    while len(out) < n:
        for t in itertools.product(IDS, repeat=r):
            out.append(t)
            if len(out) >= n:
                break
        r += 1
    return out[salt:] + out[:salt]


def prepare_history(E, chems, imol, fills_c, fills_m):
    """real earlier lookups that fill / overflow the bounded caches"""
    kind = E.pick(['fresh'] + [f'chem-cache:{k}' for k in fills_c] + ([f'phase-cache:{k}' for k in fills_m] if imol is not None else [])
                  + ['overlap-poisoning', 'same-IDs-other-package'], 'history')
    if kind.startswith('chem-cache:'):
        for key in distinct_keys(int(kind.split(':')[1])):
            chems._get_index_and_kind(key)
    elif kind.startswith('phase-cache:'):
        ph = imol._phases[0]
        for key in distinct_keys(int(kind.split(':')[1])):
            imol._get_index_data((ph, key))
    elif kind == 'same-IDs-other-package':
        # the same keys were looked up before through a package with identical IDs whose group and
        # alias definitions differ (single- and multi-phase, same phases)
        thX = _fx['thX']
        sx = tmo.Stream(None, thermo=thX)
        keys = ['fuel', 'Agua', ('Water', 'fuel'), ('fuel', 'Glucose', 'Agua'), ['Ethanol', 'Agua'], ('fuel', 'Water')]
        for key in keys:
            sx.imol[key]
        if imol is not None:
            mx = tmo.MultiStream(None, thermo=thX, phases=imol._phases)
            for key in keys:
                mx.imol[key]
                for ph in imol._phases:
                    mx.imol[ph, key]
                mx.imol[..., key]
    elif kind == 'overlap-poisoning':
        # a stream of another package (other order) is mixed / copied in: index_overlap memoises
        # CAS tuples in THIS package's lookup cache
        ix = C.mod('thermosteam.indexer')
        thB = _fx['thB']
        for right in ([0, 1], [1], [2, 0], [0, 1, 2]):
            ix.index_overlap(chems, thB.chemicals, right)
    return kind


def same(E, got, exp):
    if isinstance(exp, list):
        got = list(got) if not hasattr(got, 'dct') else [got.dct.get(i, 0.0) for i in range(got.size)]
        if len(got) != len(exp):
            return False
        return E.all([E.eq(g, e) for g, e in zip(got, exp)])
    return E.eq(got, exp)


def g_chemical_indexer(fills):
    def run(E):
        th = _fx['th']
        chems = th.chemicals
        cat = name_catalogue(_fx['CAS']) + [tuple(_fx['CAS'][:2]), (_fx['CAS'][1],), tuple(_fx['CAS'][i] for i in (2, 0))]
        key = cat[E.choice(len(cat), 'key')]
        mode = E.pick(['read', 'write-scalar', 'write-array'], 'access')
        s, flows = S.mk_stream(E, 'x', th, 'l', presence=[1, 1, E.choice(2, 'octane?'), 1])
        imol = s.imol
        hist = prepare_history(E, chems, None, fills, [])
        sig = f'{mode}/key={key!r}/history={hist}'[:150]
        if mode == 'read':
            got = imol[key]
            E.prove('read-equals-positional', same(E, got, expected_read(key, flows)), sig=sig)
            # every name of a chemical resolves to one position
            if isinstance(key, str) and key != 'fuel':
                E.prove('name-resolves-to-single-position', chems.index(key) == positions(key), sig=sig)
            return
        exp = list(flows)
        if key is ...:
            if mode == 'write-scalar':
                v = E.real('v', nice=(0.5, 30))
                imol[key] = v
                exp = [v] * 4
            else:
                vs = [E.real(f'v{i}', nice=(0.5, 30)) for i in range(4)]
                imol[key] = C.array(E, vs)
                exp = vs
        elif isinstance(key, str):
            if mode == 'write-array' and key != 'fuel':
                raise core.PathAbort('array into one chemical')
            p = positions(key)
            if isinstance(p, list):
                if mode == 'write-scalar':
                    v = E.real('v', nice=(0.5, 30))
                    imol[key] = v
                    for i, c in zip(p, GROUP[2]):
                        exp[i] = v * c
                else:
                    vs = [E.real(f'v{i}', nice=(0.5, 30)) for i in range(len(p))]
                    imol[key] = C.array(E, vs)
                    for i, x in zip(p, vs):
                        exp[i] = x
            else:
                v = E.real('v', nice=(0.5, 30))
                imol[key] = v
                exp[p] = v
        else:
            ps = [positions(k) for k in key]
            flat = [q for p in ps for q in (p if isinstance(p, list) else [p])]
            if len(set(flat)) != len(flat):
                raise core.PathAbort('overlapping key (order-dependent write)')
            if mode == 'write-scalar':
                v = E.real('v', nice=(0.5, 30))
                imol[key] = v
                for k_, p in zip(key, ps):
                    if isinstance(p, list):
                        for i, c in zip(p, GROUP[2]):
                            exp[i] = v * c
                    else:
                        exp[p] = v
            else:
                vs = [E.real(f'v{i}', nice=(0.5, 30)) for i in range(len(key))]
                imol[key] = C.array(E, vs)
                for x, p in zip(vs, ps):
                    if isinstance(p, list):
                        for i, c in zip(p, GROUP[2]):
                            exp[i] = x * c
                    else:
                        exp[p] = x
        now = [imol.data.dct.get(i, 0.0) for i in range(4)]
        for i, x in enumerate(now):
            E.observe(f'd{i}', x)
        E.prove('write-lands-on-the-keyed-positions-only', same(E, now, exp), sig=sig)
        back = imol[key]
        E.prove('read-after-write-is-consistent', same(E, back, expected_read(key, exp)), sig=sig)
        S.check_invariant(E, s, 'data', sig=sig)
    return run


def g_material_indexer(fills_c, fills_m, phases):
    def run(E):
        th = _fx['th']
        chems = th.chemicals
        ms, fl = S.mk_multistream(E, 'm', th, phases=phases, presence=[1, 1, 0, 1])
        imol = ms.imol
        order = imol._phases
        names = ['Water', 'Agua', _fx['CAS'][1], ('Water', 'Glucose'), ['Ethanol', 'Agua'], 'fuel', ('fuel', 'Water'), ...]
        form = E.pick(['phase', 'phase+name', 'any-phase+name', 'name-only', 'ellipsis'], 'key-form')
        ph = order[E.choice(len(order), 'phase')]
        name = names[E.choice(len(names), 'name')] if form in ('phase+name', 'any-phase+name', 'name-only') else None
        mode = E.pick(['read', 'write'], 'access')
        hist = prepare_history(E, chems, imol, fills_c, fills_m)
        rows = {p: fl[p] for p in order}
        total = [sum(rows[p][i] for p in order) for i in range(4)]
        sig = f'{mode}/{form}/name={name!r}/history={hist}'[:150]
        if form == 'phase':
            key = ph
        elif form == 'phase+name':
            key = (ph, name)
        elif form == 'any-phase+name':
            key = (..., name)
        elif form == 'name-only':
            key = name
        else:
            key = ...
        if mode == 'read':
            got = imol[key]
            if form == 'phase':
                exp = rows[ph]
                E.prove('read-equals-positional', same(E, got, exp), sig=sig)
            elif form == 'phase+name':
                E.prove('read-equals-positional', same(E, got, expected_read(name, rows[ph])), sig=sig)
            elif form == 'any-phase+name':
                got = list(got)
                conds = [same(E, g, expected_read(name, rows[p])) for g, p in zip(got, order)]
                E.prove('read-equals-positional', len(got) == len(order) and E.all(conds), sig=sig)
            elif form == 'name-only':
                E.prove('read-sums-across-phases', same(E, got, expected_read(name, total)), sig=sig)
            else:
                # like every key without a phase, the bare ellipsis reads totals across phases
                E.prove('read-sums-across-phases', same(E, got, total), sig=sig)
            return
        # writes need a phase
        if form in ('name-only', 'any-phase+name', 'ellipsis'):
            if form == 'name-only':
                try:
                    imol[key] = 1.0
                except IndexError:
                    E.prove('write-without-phase-rejected', True, sig=sig)
                    return
                E.prove('write-without-phase-rejected', False, sig=sig)
            raise core.PathAbort('write form not explored')
        exp = {p: list(rows[p]) for p in order}
        if form == 'phase':
            vs = [E.real(f'v{i}', nice=(0.5, 30)) for i in range(4)]
            imol[key] = C.array(E, vs)
            exp[ph] = vs
        else:
            if name is ...:
                v = E.real('v', nice=(0.5, 30))
                imol[key] = v
                exp[ph] = [v] * 4
            elif isinstance(name, str):
                p = positions(name)
                v = E.real('v', nice=(0.5, 30))
                imol[key] = v
                if isinstance(p, list):
                    for i, c in zip(p, GROUP[2]):
                        exp[ph][i] = v * c
                else:
                    exp[ph][p] = v
            else:
                ps = [positions(k) for k in name]
                flat = [q for p in ps for q in (p if isinstance(p, list) else [p])]
                if len(set(flat)) != len(flat):
                    raise core.PathAbort('overlapping key')
                vs = [E.real(f'v{i}', nice=(0.5, 30)) for i in range(len(name))]
                imol[key] = C.array(E, vs)
                for x, p in zip(vs, ps):
                    if isinstance(p, list):
                        for i, c in zip(p, GROUP[2]):
                            exp[ph][i] = x * c
                    else:
                        exp[ph][p] = x
        now = {p: [imol.data.rows[order.index(p)].dct.get(i, 0.0) for i in range(4)] for p in order}
        for p in order:
            for i, x in enumerate(now[p]):
                E.observe(f'{p}{i}', x)
        E.prove('write-lands-on-the-keyed-positions-only', E.all([same(E, now[p], exp[p]) for p in order]), sig=sig)
        S.check_invariant(E, ms, 'data', sig=sig)
    return run


def g_phase_keys():
    """phase letters: exact match first, case-insensitive only when the exact label is absent"""
    def run(E):
        th = _fx['th']
        phases = E.pick(['lg', 'Ll', 'sSl', 'LlsS'], 'phases')
        ms, fl = S.mk_multistream(E, 'm', th, phases=phases, presence=[1, 0, 0, 0])
        imol = ms.imol
        order = imol._phases
        q = E.pick(['l', 'L', 's', 'S', 'g'], 'query')
        sig = f'phases={phases}/query={q}'
        if q in order:
            want = q
        elif q.swapcase() in order and q != 'g':
            want = q.swapcase()
        else:
            want = None
        try:
            got = imol[q, 'Water']
        except Exception as e:        # noqa
            E.prove('undefined-phase-rejected', want is None, sig=sig, info=dict(exc=repr(e)[:120]))
            return
        if want is None:
            E.prove('undefined-phase-rejected', False, sig=sig)
            return
        E.prove('phase-key-resolves-to-its-row', E.eq(got, fl[want][0]), sig=sig)
    return run


def g_alias_rules():
    """set_alias rejects an alias claimed by another chemical; accepted aliases resolve to one position"""
    def run(E):
        chems = tmo.Chemicals(IDS, cache=True)
        chems.compile()
        case = E.pick(['new-alias', 'alias-of-other-chemical', 'same-alias-twice', 'group-name-clash'], 'case')
        if case == 'new-alias':
            chems.set_alias('Ethanol', 'EtOH_x')
            E.prove('alias-resolves-to-single-position', chems.index('EtOH_x') == 1 and chems.index('Ethanol') == 1, sig=case)
        elif case == 'alias-of-other-chemical':
            try:
                chems.set_alias('Ethanol', 'Water')
            except ValueError:
                E.prove('alias-claimed-by-two-chemicals-rejected', chems.index('Water') == 0, sig=case)
                return
            E.prove('alias-claimed-by-two-chemicals-rejected', False, sig=case)
        elif case == 'same-alias-twice':
            chems.set_alias('Ethanol', 'EtOH_x')
            chems.set_alias('Ethanol', 'EtOH_x')
            E.prove('alias-resolves-to-single-position', chems.index('EtOH_x') == 1, sig=case)
        else:
            chems.define_group('mix', ['Water', 'Ethanol'], [0.5, 0.5])
            E.prove('group-index-lists-members', chems.get_index('mix') == [0, 1], sig=case)
    return run


def groups(tier):
    q = tier == 'quick'
    fills_c = [99, 100, 101] if q else [99, 100, 101, 250, 1200]
    fills_m = [499, 500, 501] if q else [499, 500, 501, 1500]
    g = {
        'single-phase-indexer': (g_chemical_indexer(fills_c), dict(max_paths=400000)),
        'multi-phase-indexer': (g_material_indexer([101] if q else [100, 101], fills_m, 'lg'), dict(max_paths=400000)),
        'phase-keys': (g_phase_keys(), {}),
        'alias-rules': (g_alias_rules(), {}),
    }
    if not q:
        g['multi-phase-indexer-Lls'] = (g_material_indexer([101], [501], 'Lls'), dict(max_paths=400000))
    return g
