"""C08 — bubble and dew points (the decidable part).

With the root finders replaced by stubs that evaluate the residual once at a FRESH point and
return that point, and with Psat_i(T), gamma_i(x, T) and the Poynting factor uninterpreted:
  * the returned vapour (liquid) composition is normalised and proportional to
    z_i * gamma_i * pcf_i * Psat_i / P  (bubble)  /  z_i * P / (Psat_i * gamma_i * pcf_i)  (dew)
    at the RETURNED point;
  * a single-component mixture returns that chemical's Tsat / Psat and the one-hot composition;
  * the per-(chemicals, Gamma, Phi, PCF) instance cache never returns an object built for other
    chemicals or another order.
Outside the claim (statements about a converged float root): residual ~ 0, the T <-> P inverse
relation, bubble <= dew ordering, dependence on the normalised composition only, permutation
invariance of the root."""
import itertools

import numpy as np
import thermosteam as tmo

from symx import core, isolation
from . import common as C

ID = 'C08'
REAL_REPLAY = False
STUBS = ['flexsolve.aitken_secant / IQ_interpolation inside bubble_point.py and dew_point.py: evaluate the residual once at a fresh point and return it, assuming the contract residual(point) == 0 (bubble-point / dew-point groups)',
         'flexsolve.wegstein (dew-point activity iteration): one application of the iteration function',
         'Psats[i](T), gamma(x, T), pcf(T, P, Psats): uninterpreted positive functions; phi = ideal (1)']
ASSUMPTIONS = ['z_i > 0 symbolic, T in (260, 480), P in (5e3, 3e6)', 'single-component clause: concrete P / T from a small grid (the saturation curves are the real database correlations)']
OUTSIDE = ['that the float iteration converges to a root (the root finder is assumed to meet its contract f(root) = 0)', 'T <-> P round trip', 'bubble T <= dew T, dew P <= bubble P',
           'dew points with composition-dependent activity coefficients: only normalisation and sign of the returned composition (the defining equation is decided with activity coefficients that depend on T only)', 'scale dependence of the initial guess handed to the root finder', 'permutation invariance of the root']
BOUNDS = {'quick': dict(components='2-3'), 'thorough': dict(components='2-3')}
_fx = {}


def setup(mode):
    sym = C.begin_setup(mode)
    if not _fx:
        chems = tmo.Chemicals(['Water', 'Ethanol', 'Octane'], cache=True)
        tmo.settings.set_thermo(chems, cache=True)
        _fx['th'] = tmo.settings.get_thermo()
    if sym:
        C.patch(['thermosteam.equilibrium.bubble_point', 'thermosteam.equilibrium.dew_point', 'thermosteam.functional'])
    else:
        # the stub activity model is a Python callable: numba-compiled helpers that receive it run as their
        # Python source in the replay process as well
        dpm = C.mod('thermosteam.equilibrium.dew_point')
        for name in ('gamma_iter', 'solve_x'):
            f = getattr(dpm, name, None)
            if f is not None and hasattr(f, 'py_func'):
                C.setg(dpm, name, f.py_func)


class Flx:
    def __init__(self, E, real):
        self.E, self.real, self.k = E, real, 0
        self.residuals = []

    def __getattr__(self, n):
        return getattr(self.real, n)

    def _root(self, f, lo, hi, args):
        self.k += 1
        self.E.stub_called('root-finder')
        r = self.E.real(f'root{self.k}', lo=lo, hi=hi, nice=(lo * 1.2, hi * 0.8))
        val = f(r, *args)
        self.residuals.append(val)
        if self.exact:
            # contract of a root finder: the returned point is a root of the function it was given
            self.E.assume(self.E.eq(val, 0.0), f'root finder contract: f(root{self.k}) == 0')
        return r

    exact = True             # assume the contract f(root) == 0

    rng = (260., 480.)       # set by the harness: temperature or pressure range of the unknown

    def aitken_secant(self, f, x0, x1=None, xtol=0., ytol=0., args=(), **kw):
        return self._root(f, *self.rng, args)

    def IQ_interpolation(self, f, x0, x1, y0, y1, x=None, xtol=0., ytol=0., args=(), **kw):
        return self._root(f, *self.rng, args)

    def wegstein(self, f, x, xtol=0., args=(), **kw):
        self.E.stub_called('wegstein')
        return f(x, *args)


class Gamma:
    """activity coefficients gamma_i(x, T): uninterpreted, positive; the .f/.args interface used by dew points"""
    def __init__(self, E, n, of_T_only=False):
        self.E, self.n, self.of_T_only = E, n, of_T_only
        self.args = ()
        self.f = self.__call__

    def __call__(self, x, T, *a):
        out = []
        for i in range(self.n):
            g = self.E.uf(f'gammaT{i}', T) if self.of_T_only else self.E.uf(f'gamma{i}', *list(x), T)
            self.E.assume(g > 0)
            out.append(g)
        return C.array(self.E, out)


def instrument(E, obj, n, mod, gamma_of_T_only=False, ideal_objects=False):
    def psat(i):
        def f(T):
            p = E.uf(f'Psat{i}', T)
            E.assume(p > 1e-10)
            return p
        return f
    obj.Psats = [psat(i) for i in range(n)]
    real = mod.flx.real if isinstance(mod.flx, Flx) else mod.flx
    C.setg(mod, 'flx', Flx(E, real))
    if ideal_objects:
        return          # the real ideal activity / fugacity / Poynting objects of the ideal package stay in place
    obj.gamma = Gamma(E, n, gamma_of_T_only)

    def pcf(T, P, Psats):
        out = []
        for i in range(n):
            c = E.uf(f'pcf{i}', T, P)
            E.assume(c > 0)
            out.append(c)
        return C.array(E, out)
    obj.pcf = pcf


def zvec(E, n):
    z = []
    for i in range(n):
        x = E.real(f'z{i}', nice=(0.05, 5))
        E.assume(x > 0)
        z.append(x)
    return z


def g_bubble(ns=(2, 3)):
    def run(E):
        bpm = C.mod('thermosteam.equilibrium.bubble_point')
        th = _fx['th']
        n = E.pick(list(ns), 'n-components')
        chems = th.chemicals.tuple[:n]
        # 'ideal': the solver object of the IDEAL package with its own (real) activity, fugacity and Poynting
        # objects - only the vapour pressures are unknown functions
        models = E.pick(['uninterpreted', 'ideal'], 'models')
        bp = bpm.BubblePoint(chems, th if models == 'uninterpreted' else th.ideal())
        saved = (bp.Psats, bp.gamma, bp.pcf)
        try:
            instrument(E, bp, n, bpm, ideal_objects=(models == 'ideal'))
            which = E.pick(['solve_Ty', 'solve_Py'], 'which')
            z = zvec(E, n)
            zs = sum(z)
            if which == 'solve_Ty':
                P = E.real('P', lo=5e3, hi=3e6, nice=(5e4, 5e5))
                T, y = bp.solve_Ty(C.array(E, z), P)
            else:
                bpm.flx.rng = (5e3, 3e6)
                T = E.real('T', lo=260, hi=480, nice=(300, 400))
                E.assume(E.all([T >= bp.Tmin, T <= bp.Tmax]) if not E.concrete else True)
                P, y = bp.solve_Py(C.array(E, z), T)
            y = list(y)
            zn = [x / zs for x in z]
            if models == 'ideal':
                w = [zn[i] * E.uf(f'Psat{i}', T) / P for i in range(n)]
            else:
                w = [zn[i] * E.uf(f'gamma{i}', *zn, T) * E.uf(f'pcf{i}', T, P) * E.uf(f'Psat{i}', T) / P for i in range(n)]
            sw = sum(w)
            E.observe('y0', y[0])
            # below 1e-16 normalize() returns equal fractions by design (solve_Py works on the normalised z)
            big = (sw >= 1e-16)
            # given the root finder's contract (it returns a root of the residual it was handed), the mole fractions
            # implied by modified Raoult's law for the NORMALISED liquid composition sum to one at the returned point
            E.prove('bubble-point-makes-the-Raoult-vapour-fractions-sum-to-one', E.eq(sw, 1.0), sig=f'{which}/n={n}/{models}')
            E.prove('bubble-composition-normalised', E.implies(big, E.eq(sum(y), 1.0)), sig=f'{which}/n={n}/{models}')
            E.prove('bubble-composition-is-modified-Raoult-at-the-returned-point',
                    E.implies(big, E.all([E.eq(y[i] * sw, w[i]) for i in range(n)])), sig=f'{which}/n={n}/{models}')
        finally:
            bp.Psats, bp.gamma, bp.pcf = saved
    return run


def g_dew(ns=(2, 3)):
    def run(E):
        dpm = C.mod('thermosteam.equilibrium.dew_point')
        th = _fx['th']
        n = E.pick(list(ns), 'n-components')
        chems = th.chemicals.tuple[:n]
        # with activity coefficients that depend on T only (or the real objects of the ideal package) the Wegstein
        # iteration is exact after one step and the residual handed to the root finder can be compared with the
        # defining equation
        models = E.pick(['x-dependent', 'T-only', 'ideal'], 'activity-coefficients')
        simple = models != 'x-dependent'
        dp = dpm.DewPoint(chems, th if models != 'ideal' else th.ideal())
        saved = (dp.Psats, dp.gamma, dp.pcf)
        try:
            instrument(E, dp, n, dpm, gamma_of_T_only=(models == 'T-only'), ideal_objects=(models == 'ideal'))
            which = E.pick(['solve_Tx', 'solve_Px'], 'which')
            z = zvec(E, n)
            zs = sum(z)
            if which == 'solve_Tx':
                P = E.real('P', lo=5e3, hi=3e6, nice=(5e4, 5e5))
                T, x = dp.solve_Tx(C.array(E, z), P)
            else:
                dpm.flx.rng = (5e3, 3e6)
                T = E.real('T', lo=260, hi=480, nice=(300, 400))
                P, x = dp.solve_Px(C.array(E, z), T)
            x = list(x)
            E.observe('x0', x[0])
            E.prove('dew-composition-normalised', E.eq(sum(x), 1.0), sig=f'{which}/n={n}/{models}')
            E.prove('dew-composition-non-negative', E.all([E.ge(v, 0.0) for v in x]), sig=f'{which}/n={n}/{models}')
            if models == 'ideal':
                w = [(z[i] / zs) * P / E.uf(f'Psat{i}', T) for i in range(n)]
            elif simple:
                w = [(z[i] / zs) * P / (E.uf(f'Psat{i}', T) * E.uf(f'gammaT{i}', T) * E.uf(f'pcf{i}', T, P)) for i in range(n)]
            if simple:
                sw = sum(w)
                E.prove('dew-point-makes-the-Raoult-liquid-fractions-sum-to-one', E.eq(sw, 1.0), sig=f'{which}/n={n}/{models}')
                E.prove('dew-composition-is-modified-Raoult-at-the-returned-point', E.all([E.eq(x[i] * sw, w[i]) for i in range(n)]), sig=f'{which}/n={n}/{models}')
        finally:
            dp.Psats, dp.gamma, dp.pcf = saved
    return run


def g_single_component():
    def run(E):
        bpm = C.mod('thermosteam.equilibrium.bubble_point')
        dpm = C.mod('thermosteam.equilibrium.dew_point')
        th = _fx['th']
        n = 3
        chems = th.chemicals.tuple
        k = E.choice(n, 'which-chemical')
        zk = E.real('zk', lo=1e-9, nice=(0.05, 5))
        z = [0.0] * n
        z[k] = zk
        which = E.pick(['bubble-T', 'bubble-P', 'dew-T', 'dew-P'], 'which')
        c = chems[k]
        za = C.array(E, z) if not E.concrete else np.array(z, dtype=float)
        if which.endswith('-T'):
            P = E.pick([2e4, 101325., 9e5], 'P')
            obj = bpm.BubblePoint(chems, th) if which.startswith('bubble') else dpm.DewPoint(chems, th)
            T, comp = (obj.solve_Ty if which.startswith('bubble') else obj.solve_Tx)(za, P)
            want = c.Tsat(P, check_validity=False) if P <= c.Pc else c.Tc
            E.prove('single-component-returns-its-saturation-temperature', abs(float(T) - float(want)) < 1e-9, sig=which)
        else:
            T = E.pick([300., 350., 420.], 'T')
            obj = bpm.BubblePoint(chems, th) if which.startswith('bubble') else dpm.DewPoint(chems, th)
            P, comp = (obj.solve_Py if which.startswith('bubble') else obj.solve_Px)(za, T)
            want = c.Psat(T) if T <= c.Tc else c.Pc
            E.prove('single-component-returns-its-saturation-pressure', abs(float(P) - float(want)) < 1e-9 * float(want), sig=which)
        comp = list(comp)
        E.prove('single-component-composition-is-one-hot', E.all([E.eq(comp[i], 1.0 if i == k else 0.0) for i in range(n)]), sig=which)
    return run


def g_cache():
    def run(E):
        bpm = C.mod('thermosteam.equilibrium.bubble_point')
        dpm = C.mod('thermosteam.equilibrium.dew_point')
        th = _fx['th']
        cls = E.pick([bpm.BubblePoint, dpm.DewPoint], 'class')
        chems = th.chemicals.tuple
        subsets = [p for r in (1, 2, 3) for p in itertools.permutations(range(3), r)]
        seq = [subsets[E.choice(len(subsets), f'request{j}')] for j in range(3)]
        objs = []
        for idx in seq:
            want = tuple(chems[i] for i in idx)
            o = cls(want, th)
            E.prove('cached-instance-was-built-for-the-requested-chemicals', tuple(o.chemicals) == want and o.IDs == tuple(c.ID for c in want)
                    and len(o.Psats) == len(want), sig=cls.__name__)
            objs.append((idx, o))
        for (i1, o1), (i2, o2) in itertools.combinations(objs, 2):
            E.prove('same-object-iff-same-request', (o1 is o2) == (i1 == i2), sig=cls.__name__)
    return run


BUDGET_S = {'quick': 400, 'thorough': 2400}


def groups(tier):
    q = tier == 'quick'
    return {
        'bubble-point': (g_bubble((2,) if q else (2, 3)), dict(qtimeout_ms=60000, stubs_required=('root-finder',), max_paths=200000)),
        'dew-point': (g_dew((2,) if q else (2, 3)), dict(qtimeout_ms=20000, stubs_required=('root-finder',), max_paths=200000, task_budget_s=200)),
        'single-component': (g_single_component(), {}),
        'instance-cache': (g_cache(), dict(max_paths=400000, witnesses=3)),
    }
