"""C09 — sparse flow arrays behave like the dense NumPy arrays they represent.

One inductive step from an ARBITRARY valid sparse object (every presence pattern, symbolic
non-zero stored values) under every operator / operand kind, compared with a dense
reference of NumPy's semantics; representation invariant and no-aliasing after each step.
"""
import numpy as np

from symx import core
from . import common as C
from .dense import dense, bmap, umap, shape, Mismatch, flat

ID = 'C09'
REAL_REPLAY = False          # no stubs: the concrete replay already runs the real code
STUBS = []
ASSUMPTIONS = [
    'element values are reals (IEEE rounding outside the claim); stored entries start non-zero',
    'division: every element of the divisor is non-zero (NumPy inf/nan vs ZeroDivisionError is outside the value oracle)',
    'in-place ops on a length-1 target may grow the target (dense image compared with NumPy out-of-place result)',
]
OUTSIDE = ['vector sizes > 3 (quick) / > 3 with 2 rows (thorough)', 'IEEE rounding / underflow of products',
           'float-typed operands of the not-yet-optimised logical operators (&,|,^)']
BOUNDS = {
    'quick': dict(vector_size='1..3', rows='1..2', operators='add sub mul truediv eq ne gt lt ge le + in-place + reflected',
                  operand_kinds='scalar, list, ndarray 1-d/2-d, SparseVector (same size, size 1, mismatched), SparseLogicalVector, SparseArray'),
    'thorough': dict(vector_size='1..3', rows='1..3', operators='as quick + indexing + reductions + logical vectors',
                     operand_kinds='as quick'),
}

sp = None


def setup(mode):
    global sp
    sym = C.begin_setup(mode)
    sp = C.mod('thermosteam.base.sparse')
    if sym:
        C.patch(['thermosteam.base.sparse'])
        # `dtype is float` tests compare the class attribute with the module global
        C.setg(sp.SparseVector, 'dtype', core.symfloat)


# ----------------------------------------------------------------------------- builders
def mk_sv(E, name, size, force=None):
    dct, vals = {}, []
    for i in range(size):
        present = force[i] if force is not None else E.choice(2, f'{name}[{i}]?')
        if present:
            x = E.real(f'{name}{i}', nice=(-40, 40))
            E.assume(x != 0)
            dct[i] = x
            vals.append(x)
        else:
            vals.append(0.0)
    return sp.SparseVector.from_dict(dct, size), vals


def mk_slv(E, name, size):
    s = {i for i in range(size) if E.choice(2, f'{name}[{i}]?')}
    return sp.SparseLogicalVector.from_set(s, size), [i in s for i in range(size)]


def mk_vals(E, name, n, nonzero=False):
    out = []
    for i in range(n):
        x = E.real(f'{name}{i}', nice=(-40, 40))
        if nonzero:
            E.assume(x != 0)
        out.append(x)
    return out


def mk_sa(E, name, m, n):
    rows, vals = [], []
    for r in range(m):
        v, d = mk_sv(E, f'{name}r{r}', n)
        rows.append(v)
        vals.append(d)
    return sp.SparseArray.from_rows(rows), vals


def snapshot(x):
    """identity + content snapshot of an operand (to show it is not modified)."""
    if isinstance(x, sp.SparseArray):
        return ('sa', [snapshot(r) for r in x.rows], list(x.rows))
    if isinstance(x, sp.SparseVector):
        return ('sv', x.dct, dict(x.dct), x.size)
    if isinstance(x, sp.SparseLogicalVector):
        return ('slv', x.set, set(x.set), x.size)
    if isinstance(x, np.ndarray):
        return ('arr', x, x.copy())
    if isinstance(x, list):
        return ('list', x, list(x))
    return ('scalar', x)


def unchanged(E, x, snap):
    k = snap[0]
    if k == 'sa':
        if len(x.rows) != len(snap[1]) or any(a is not b for a, b in zip(x.rows, snap[2])):
            return False
        return E.all([unchanged(E, r, s) for r, s in zip(x.rows, snap[1])])
    if k == 'sv':
        if x.dct is not snap[1] or x.size != snap[3] or x.dct.keys() != snap[2].keys():
            return False
        return all(x.dct[i] is snap[2][i] or (E.concrete and x.dct[i] == snap[2][i]) for i in x.dct)
    if k == 'slv':
        return x.set is snap[1] and x.set == snap[2] and x.size == snap[3]
    if k == 'arr':
        return all((a is b) or (E.concrete and a == b) for a, b in zip(x.flat, snap[2].flat))
    if k == 'list':
        return len(x) == len(snap[2]) and all(a is b for a, b in zip(x, snap[2]))
    return True


def dicts_of(x):
    if isinstance(x, sp.SparseArray):
        return [d for r in x.rows for d in dicts_of(r)]
    if isinstance(x, sp.SparseVector):
        return [x.dct]
    if isinstance(x, sp.SparseLogicalVector):
        return [x.set]
    return []


def no_alias(res, *operands):
    rd = dicts_of(res)
    for o in operands:
        for d in dicts_of(o):
            if any(d is r for r in rd):
                return False
    # rows of a result must not share storage among themselves either
    return len({id(d) for d in rd}) == len(rd)


def same_dense(E, got, exp):
    if shape(got) != shape(exp):
        return False
    return E.all([E.eq(g, e) for g, e in zip(flat(got), flat(exp))])


def same_bool(E, got, exp):
    """got: concrete bools (result sets); exp: symbolic/concrete conditions."""
    if shape(got) != shape(exp):
        return False
    conds = []
    for g, e in zip(flat(got), flat(exp)):
        if isinstance(e, core.SymBool):
            conds.append(e if g else ~e)
        else:
            conds.append(bool(g) == bool(e))
    return E.all(conds)


ARITH = {
    'add': lambda a, b: a + b,
    'sub': lambda a, b: a - b,
    'mul': lambda a, b: a * b,
    'truediv': lambda a, b: a / b,
}
CMP = {
    'eq': lambda a, b: a == b,
    'ne': lambda a, b: a != b,
    'gt': lambda a, b: a > b,
    'lt': lambda a, b: a < b,
    'ge': lambda a, b: a >= b,
    'le': lambda a, b: a <= b,
}


def apply(op, a, b):
    return getattr(a, f'__{op}__')(b)


def iapply(op, a, b):
    return getattr(a, f'__i{op}__')(b)


# operand kinds for a 1-d target of size n
KINDS = ['scalar', 'list', 'array', 'sv', 'sv1', 'slv', 'array1', 'sv_bad', 'array_bad', 'sa1', 'sa2', 'array2d']


def mk_operand(E, kind, n, nonzero):
    """returns (operand, dense image, expect_mismatch)"""
    if kind == 'scalar':
        x = E.real('k', nice=(-40, 40))
        if nonzero:
            E.assume(x != 0)
        return x, x, False
    if kind == 'list':
        v = mk_vals(E, 'b', n, nonzero)
        return list(v), v, False
    if kind == 'array':
        v = mk_vals(E, 'b', n, nonzero)
        return C.array(E, v), v, False
    if kind == 'array1':
        v = mk_vals(E, 'b', 1, nonzero)
        return C.array(E, v), v, False
    if kind == 'sv':
        o, v = mk_sv(E, 'b', n, force=[1] * n if nonzero else None)
        return o, v, False
    if kind == 'sv1':
        o, v = mk_sv(E, 'b', 1, force=[1] if nonzero else None)
        return o, v, False
    if kind == 'slv':
        if nonzero:
            s = sp.SparseLogicalVector.from_set(set(range(n)), n)
            return s, [True] * n, False
        o, v = mk_slv(E, 'b', n)
        return o, v, False
    if kind == 'sv_bad':
        o, v = mk_sv(E, 'b', n + 1, force=[1] * (n + 1) if nonzero else None)
        return o, v, n != 1
    if kind == 'array_bad':
        v = mk_vals(E, 'b', n + 1, nonzero)
        return C.array(E, v), v, n != 1
    if kind == 'sa1':
        o, v = mk_sa(E, 'b', 1, n) if not nonzero else _full_sa(E, 1, n)
        return o, v, False
    if kind == 'sa2':
        o, v = mk_sa(E, 'b', 2, n) if not nonzero else _full_sa(E, 2, n)
        return o, v, False
    if kind == 'array2d':
        v = [mk_vals(E, f'b{r}_', n, nonzero) for r in range(2)]
        return C.array(E, v), v, False
    raise KeyError(kind)


def _full_sa(E, m, n):
    rows, vals = [], []
    for r in range(m):
        v, d = mk_sv(E, f'br{r}', n, force=[1] * n)
        rows.append(v)
        vals.append(d)
    return sp.SparseArray.from_rows(rows), vals


def fnum(x):
    """numeric dense image: booleans count as 0/1 in arithmetic"""
    return umap(lambda v: (1.0 if v else 0.0) if isinstance(v, (bool, np.bool_)) else v, x)


# ----------------------------------------------------------------------------- groups
def g_sv_binop(sizes, kinds, ops):
    def run(E):
        op = E.pick(ops, 'op')
        kind = E.pick(kinds, 'kind')
        n = E.pick(sizes, 'n')
        a, da = mk_sv(E, 'a', n)
        b, db, bad = mk_operand(E, kind, n, nonzero=(op == 'truediv'))
        sa_, sb_ = snapshot(a), snapshot(b)
        sig = f'{op}/{kind}'
        try:
            r = apply(op, a, b)
        except (ValueError, IndexError, TypeError) as e:
            E.prove('rejects-only-mismatch', bad, sig=sig, info=dict(exc=repr(e)[:200]))
            return
        except ZeroDivisionError as e:
            E.prove('no-spurious-zero-division', op == 'truediv' and False, sig=sig, info=dict(exc=repr(e)))
            return
        if bad:
            E.prove('shape-mismatch-rejected', False, sig=sig)
            return
        exp = bmap(ARITH[op], fnum(da), fnum(db))
        got = dense(r)
        for i, g in enumerate(flat(got)):
            E.observe(f'r{i}', g)
        E.prove('value', same_dense(E, got, exp), sig=sig)
        C.check_sv_invariant(E, r, 'result', sig=sig)
        E.prove('operands-unchanged', E.all([unchanged(E, a, sa_), unchanged(E, b, sb_)]), sig=sig)
        E.prove('result-shares-no-storage', no_alias(r, a, b), sig=sig)
    return run


def g_sv_iop(sizes, kinds, ops):
    def run(E):
        op = E.pick(ops, 'op')
        kind = E.pick(kinds, 'kind')
        n = E.pick(sizes, 'n')
        a, da = mk_sv(E, 'a', n)
        b, db, bad = mk_operand(E, kind, n, nonzero=(op == 'truediv'))
        sb_ = snapshot(b)
        sig = f'i{op}/{kind}'
        # NumPy refuses to broadcast the OUTPUT: 2-d operands on a 1-d target are mismatches
        if kind in ('sa2', 'array2d'):
            bad = True
        try:
            r = iapply(op, a, b)
        except (ValueError, IndexError, TypeError) as e:
            E.prove('rejects-only-mismatch', bad, sig=sig, info=dict(exc=repr(e)[:200]))
            return
        except ZeroDivisionError as e:
            E.prove('no-spurious-zero-division', False, sig=sig, info=dict(exc=repr(e)))
            return
        if bad:
            E.prove('shape-mismatch-rejected', False, sig=sig)
            return
        exp = bmap(ARITH[op], fnum(da), fnum(db))
        while len(shape(exp)) > 1 and shape(exp)[0] == 1:
            exp = exp[0]
        got = dense(a)
        for i, g in enumerate(flat(got)):
            E.observe(f'a{i}', g)
        E.prove('returns-target', r is a, sig=sig)
        E.prove('value', same_dense(E, got, exp), sig=sig)
        C.check_sv_invariant(E, a, 'target', sig=sig)
        E.prove('other-operand-unchanged', unchanged(E, b, sb_), sig=sig)
        E.prove('target-shares-no-storage', no_alias(a, b), sig=sig)
    return run


def g_sv_cmp(sizes, kinds, ops):
    def run(E):
        op = E.pick(ops, 'op')
        kind = E.pick(kinds, 'kind')
        n = E.pick(sizes, 'n')
        a, da = mk_sv(E, 'a', n)
        b, db, bad = mk_operand(E, kind, n, nonzero=False)
        sa_, sb_ = snapshot(a), snapshot(b)
        sig = f'{op}/{kind}'
        try:
            r = apply(op, a, b)
        except (ValueError, IndexError, TypeError) as e:
            E.prove('rejects-only-mismatch', bad, sig=sig, info=dict(exc=repr(e)[:200]))
            return
        if bad:
            E.prove('shape-mismatch-rejected', False, sig=sig)
            return
        exp = bmap(CMP[op], fnum(da), fnum(db))
        got = dense(r)
        E.prove('value', same_bool(E, got, exp), sig=sig)
        C.check_sv_invariant(E, r, 'result', sig=sig)
        E.prove('operands-unchanged', E.all([unchanged(E, a, sa_), unchanged(E, b, sb_)]), sig=sig)
        E.prove('result-shares-no-storage', no_alias(r, a, b), sig=sig)
    return run


def g_sv_reflected(sizes):
    def run(E):
        op = E.pick(['add', 'sub', 'mul', 'truediv'], 'op')
        n = E.pick(sizes, 'n')
        a, da = mk_sv(E, 'a', n, force=[1] * n if op == 'truediv' else None)
        k = E.real('k', nice=(-40, 40))
        sa_ = snapshot(a)
        sig = f'r{op}/scalar'
        r = getattr(a, f'__r{op}__')(k)
        exp = bmap(lambda x, y: ARITH[op](y, x), fnum(da), k)
        got = dense(r)
        for i, g in enumerate(flat(got)):
            E.observe(f'r{i}', g)
        E.prove('value', same_dense(E, got, exp), sig=sig)
        C.check_sv_invariant(E, r, 'result', sig=sig)
        E.prove('operands-unchanged', unchanged(E, a, sa_), sig=sig)
        E.prove('result-shares-no-storage', no_alias(r, a), sig=sig)
    return run


def g_sv_unary(sizes):
    def run(E):
        op = E.pick(['neg', 'abs', 'copy', 'to_array', 'tolist', 'iter'], 'op')
        n = E.pick(sizes, 'n')
        a, da = mk_sv(E, 'a', n)
        sa_ = snapshot(a)
        if op == 'neg':
            r, exp = -a, [-x for x in da]
        elif op == 'abs':
            r, exp = abs(a), [abs(x) for x in da]
        elif op == 'copy':
            r, exp = a.copy(), list(da)
        elif op == 'to_array':
            r, exp = a.to_array(), list(da)
        elif op == 'tolist':
            r, exp = a.tolist(), list(da)
        else:
            r, exp = list(a), list(da)
        E.prove('value', same_dense(E, dense(r), exp), sig=op)
        if isinstance(r, sp.SparseVector):
            C.check_sv_invariant(E, r, 'result', sig=op)
            E.prove('result-shares-no-storage', no_alias(r, a), sig=op)
        E.prove('operands-unchanged', unchanged(E, a, sa_), sig=op)
    return run


def g_sv_reduce(sizes):
    def run(E):
        op = E.pick(['sum', 'mean', 'max', 'min', 'any', 'all'], 'op')
        keep = E.choice(2, 'keepdims')
        n = E.pick(sizes, 'n')
        a, da = mk_sv(E, 'a', n)
        sa_ = snapshot(a)
        sig = f'{op}/keepdims={keep}'
        r = getattr(a, op)(keepdims=bool(keep))
        if op == 'sum':
            exp = sum(da)
        elif op == 'mean':
            exp = sum(da) / n
        elif op == 'max':
            exp = da[0]
            for x in da[1:]:
                exp = E.ite(x > exp, x, exp) if not E.concrete else max(x, exp)
        elif op == 'min':
            exp = da[0]
            for x in da[1:]:
                exp = E.ite(x < exp, x, exp) if not E.concrete else min(x, exp)
        elif op == 'any':
            exp = any(not isinstance(x, float) or x != 0 for x in da)      # presence == non-zero
        else:
            exp = all(not isinstance(x, float) or x != 0 for x in da)
        got = dense(r)
        if keep:
            E.prove('keepdims-shape', shape(got) == (1,), sig=sig)
            got = got[0] if shape(got) == (1,) else got
            C.check_sv_invariant(E, r, 'result', sig=sig)
        if op in ('any', 'all'):
            E.prove('value', bool(got) == bool(exp), sig=sig)
        else:
            E.observe('r', got)
            E.prove('value', E.eq(got, exp), sig=sig)
        E.prove('operands-unchanged', unchanged(E, a, sa_), sig=sig)
    return run


INDEXES = ['int', 'negint_oob', 'slice_all', 'slice', 'list', 'array_int', 'mask_list', 'mask_array', 'tuple1']


def _mk_index(E, kind, n):
    """returns (index object, list of positions selected or None for scalar position, scalar?)"""
    if kind == 'int':
        i = E.choice(n, 'i')
        return i, [i], True
    if kind == 'tuple1':
        i = E.choice(n, 'i')
        return (i,), [i], True
    if kind == 'slice_all':
        return slice(None), list(range(n)), False
    if kind == 'slice':
        lo = E.choice(n, 'lo')
        hi = lo + E.choice(n - lo + 1, 'len')
        return slice(lo, hi), list(range(lo, hi)), False
    if kind in ('list', 'array_int'):
        k = 1 + E.choice(min(n, 2), 'k')
        pos = [E.choice(n, f'p{j}') for j in range(k)]
        if len(set(pos)) != len(pos):
            raise core.PathAbort('duplicate fancy index (order-dependent in NumPy too)')
        return (pos if kind == 'list' else np.array(pos)), pos, False
    if kind in ('mask_list', 'mask_array'):
        m = [bool(E.choice(2, f'm{j}')) for j in range(n)]
        if not any(m) and kind == 'mask_list':
            pass
        pos = [j for j in range(n) if m[j]]
        return (m if kind == 'mask_list' else np.array(m)), pos, False
    raise KeyError(kind)


def g_sv_getitem(sizes):
    def run(E):
        kind = E.pick([k for k in INDEXES if k != 'negint_oob'], 'index')
        n = E.pick(sizes, 'n')
        a, da = mk_sv(E, 'a', n)
        sa_ = snapshot(a)
        idx, pos, scalar = _mk_index(E, kind, n)
        r = a[idx]
        exp = da[pos[0]] if scalar else [da[p] for p in pos]
        E.prove('value', same_dense(E, dense(r), exp), sig=kind)
        E.prove('operands-unchanged', unchanged(E, a, sa_), sig=kind)
    return run


def g_sv_setitem(sizes):
    def run(E):
        kind = E.pick([k for k in INDEXES if k != 'negint_oob'], 'index')
        vkind = E.pick(['scalar', 'array', 'list', 'sv'], 'value-kind')
        ro = E.choice(2, 'read_only')
        n = E.pick(sizes, 'n')
        a, da = mk_sv(E, 'a', n)
        idx, pos, scalar = _mk_index(E, kind, n)
        sig = f'{kind}<-{vkind}' + ('/read-only' if ro else '')
        if vkind == 'scalar':
            v = E.real('v', nice=(-40, 40))
            dv = [v] * len(pos)
            vbad = False
        else:
            if scalar:
                raise core.PathAbort('sequence into an element: covered by the scalar case of NumPy semantics')
            vals = mk_vals(E, 'v', len(pos))
            dv = vals
            if vkind == 'array':
                v = C.array(E, vals)
            elif vkind == 'list':
                v = list(vals)
            else:
                if not pos:
                    raise core.PathAbort('empty')
                v = sp.SparseVector.from_size(len(pos))
                v[:] = list(vals)
            vbad = False
            if len(pos) == 0:
                raise core.PathAbort('empty selection with array value')
        if ro:
            a.setflags(0)
        sa_ = snapshot(a)
        try:
            a[idx] = v
        except ValueError as e:
            E.prove('only-read-only-rejected', bool(ro), sig=sig, info=dict(exc=repr(e)[:200]))
            if ro:
                E.prove('read-only-target-unchanged', unchanged(E, a, sa_), sig=sig)
            return
        if ro:
            E.prove('read-only-write-rejected', False, sig=sig)
            return
        exp = list(da)
        for p, x in zip(pos, dv):
            exp[p] = x
        got = dense(a)
        for i, g in enumerate(got):
            E.observe(f'a{i}', g)
        E.prove('value', same_dense(E, got, exp), sig=sig)
        C.check_sv_invariant(E, a, 'target', sig=sig)
        if vkind == 'sv':
            E.prove('target-shares-no-storage', no_alias(a, v), sig=sig)
    return run


def g_sv_readonly(sizes):
    def run(E):
        op = E.pick(['add', 'sub', 'mul', 'truediv', 'clear'], 'op')
        n = E.pick(sizes, 'n')
        a, da = mk_sv(E, 'a', n)
        a.setflags(0)
        sa_ = snapshot(a)
        k = E.real('k', nice=(-40, 40))
        E.assume(k != 0)
        try:
            if op == 'clear':
                a.clear()
            else:
                iapply(op, a, k)
        except ValueError:
            E.prove('read-only-target-unchanged', unchanged(E, a, sa_), sig=op)
            return
        E.prove('read-only-write-rejected', False, sig=op)
    return run


def g_sv_mix_from(sizes):
    def run(E):
        n = E.pick(sizes, 'n')
        k = 1 + E.choice(3, 'inlets') if True else 0
        k -= 1
        a, da = mk_sv(E, 'a', n)
        others, dense_others = [], []
        for j in range(k):
            which = E.choice(2, f'o{j}-is-self')
            if which:
                others.append(a)
                dense_others.append(da)
            else:
                o, d = mk_sv(E, f'o{j}_', n)
                others.append(o)
                dense_others.append(d)
        snaps = [snapshot(o) for o in others if o is not a]
        a.mix_from(others)
        exp = [sum([d[i] for d in dense_others]) if dense_others else 0.0 for i in range(n)]
        got = dense(a)
        for i, g in enumerate(got):
            E.observe(f'a{i}', g)
        E.prove('value', same_dense(E, got, exp), sig=f'inlets={k}')
        C.check_sv_invariant(E, a, 'target', sig=f'inlets={k}')
        E.prove('other-operand-unchanged', E.all([unchanged(E, o, s) for o, s in
                                                  zip([o for o in others if o is not a], snaps)]), sig=f'inlets={k}')
    return run


# ---- SparseArray
SA_KINDS = ['scalar', 'row_list', 'row_array', 'sv', 'sv1', 'sa_same', 'sa_1row', 'array2d', 'array2d_col1', 'sv_bad', 'sa_badrows',
            'array2d_badrows']


def _mk_sa_operand(E, kind, m, n, nonzero):
    if kind == 'scalar':
        x = E.real('k', nice=(-40, 40))
        if nonzero:
            E.assume(x != 0)
        return x, x, False
    if kind == 'row_list':
        v = mk_vals(E, 'b', n, nonzero)
        return list(v), v, False
    if kind == 'row_array':
        v = mk_vals(E, 'b', n, nonzero)
        return C.array(E, v), v, False
    if kind == 'sv':
        o, v = mk_sv(E, 'b', n, force=[1] * n if nonzero else None)
        return o, v, False
    if kind == 'sv1':
        o, v = mk_sv(E, 'b', 1, force=[1] if nonzero else None)
        return o, v, False
    if kind == 'sa_same':
        o, v = _full_sa(E, m, n) if nonzero else mk_sa(E, 'b', m, n)
        return o, v, False
    if kind == 'sa_1row':
        o, v = _full_sa(E, 1, n) if nonzero else mk_sa(E, 'b', 1, n)
        return o, v, False
    if kind == 'array2d':
        v = [mk_vals(E, f'b{r}_', n, nonzero) for r in range(m)]
        return C.array(E, v), v, False
    if kind == 'array2d_col1':
        v = [mk_vals(E, f'b{r}_', 1, nonzero) for r in range(m)]
        # an (m, 1) dense column broadcasts in NumPy; the sparse classes refuse it with a clean
        # ValueError (unsupported, not wrong): accepted, but a returned value must be right
        return C.array(E, v), v, ('may' if m > 1 and n > 1 else False)
    if kind == 'sv_bad':
        o, v = mk_sv(E, 'b', n + 1, force=[1] * (n + 1) if nonzero else None)
        return o, v, n != 1
    if kind == 'sa_badrows':
        o, v = _full_sa(E, m + 1, n) if nonzero else mk_sa(E, 'b', m + 1, n)
        return o, v, m != 1
    if kind == 'array2d_badrows':
        v = [mk_vals(E, f'b{r}_', n, nonzero) for r in range(m + 1)]
        return C.array(E, v), v, m != 1
    raise KeyError(kind)


def g_sa_binop(shapes, kinds, ops, inplace):
    def run(E):
        op = E.pick(ops, 'op')
        kind = E.pick(kinds, 'kind')
        m, n = E.pick(shapes, 'shape')
        a, da = mk_sa(E, 'a', m, n)
        b, db, bad = _mk_sa_operand(E, kind, m, n, nonzero=(op == 'truediv'))
        sa_, sb_ = snapshot(a), snapshot(b)
        sig = ('i' if inplace else '') + f'{op}/{kind}'
        if inplace and kind in ('sa_badrows', 'array2d_badrows'):
            bad = True          # output cannot be broadcast
        try:
            r = iapply(op, a, b) if inplace else apply(op, a, b)
        except (ValueError, IndexError, TypeError) as e:
            E.prove('rejects-only-mismatch', bool(bad), sig=sig, info=dict(exc=repr(e)[:200]))
            return
        except ZeroDivisionError as e:
            E.prove('no-spurious-zero-division', False, sig=sig, info=dict(exc=repr(e)))
            return
        if bad is True:
            E.prove('shape-mismatch-rejected', False, sig=sig)
            return
        f = ARITH.get(op) or CMP[op]
        exp = bmap(f, fnum(da), fnum(db))
        got = dense(a if inplace else r)
        if op in CMP:
            E.prove('value', same_bool(E, got, exp), sig=sig)
        else:
            for i, g in enumerate(flat(got)):
                E.observe(f'r{i}', g)
            E.prove('value', same_dense(E, got, exp), sig=sig)
        C.check_sv_invariant(E, a if inplace else r, 'result', sig=sig)
        if inplace:
            E.prove('returns-target', r is a, sig=sig)
            E.prove('other-operand-unchanged', unchanged(E, b, sb_), sig=sig)
            E.prove('target-shares-no-storage', no_alias(a, b), sig=sig)
        else:
            E.prove('operands-unchanged', E.all([unchanged(E, a, sa_), unchanged(E, b, sb_)]), sig=sig)
            E.prove('result-shares-no-storage', no_alias(r, a, b), sig=sig)
    return run


def _red(E, op, xs):
    xs = list(xs)
    if op == 'sum':
        return sum(xs)
    if op == 'mean':
        return sum(xs) / len(xs)
    acc = xs[0]
    for x in xs[1:]:
        if op == 'max':
            acc = E.ite(x > acc, x, acc) if not E.concrete else max(x, acc)
        else:
            acc = E.ite(x < acc, x, acc) if not E.concrete else min(x, acc)
    return acc


def g_sa_reduce(shapes):
    def run(E):
        op = E.pick(['sum', 'mean', 'max', 'min', 'any', 'all'], 'op')
        axis = E.pick([None, 0, 1], 'axis')
        keep = E.choice(2, 'keepdims')
        m, n = E.pick(shapes, 'shape')
        a, da = mk_sa(E, 'a', m, n)
        sa_ = snapshot(a)
        sig = f'{op}/axis={axis}/keepdims={keep}'
        r = getattr(a, op)(axis=axis, keepdims=bool(keep))
        nz = lambda x: (not isinstance(x, float)) or x != 0      # noqa: E731
        if op in ('any', 'all'):
            agg = any if op == 'any' else all
            if axis is None:
                exp = agg(nz(x) for row in da for x in row)
            elif axis == 0:
                exp = [agg(nz(da[i][j]) for i in range(m)) for j in range(n)]
            else:
                exp = [agg(nz(x) for x in row) for row in da]
        else:
            if axis is None:
                exp = _red(E, op, [x for row in da for x in row])
            elif axis == 0:
                exp = [_red(E, op, [da[i][j] for i in range(m)]) for j in range(n)]
            else:
                exp = [_red(E, op, row) for row in da]
        if keep:
            if axis is None:
                exp = [[exp]]
            elif axis == 0:
                exp = [exp]
            else:
                exp = [[x] for x in exp]
        got = dense(r)
        E.prove('shape', shape(got) == shape(exp), sig=sig)
        if op in ('any', 'all'):
            E.prove('value', shape(got) == shape(exp) and all(bool(g) == bool(e) for g, e in zip(flat(got), flat(exp))), sig=sig)
        else:
            for i, g in enumerate(flat(got)):
                E.observe(f'r{i}', g)
            E.prove('value', same_dense(E, got, exp), sig=sig)
        if isinstance(r, (sp.SparseVector, sp.SparseArray, sp.SparseLogicalVector)):
            C.check_sv_invariant(E, r, 'result', sig=sig)
            E.prove('result-shares-no-storage', no_alias(r, a), sig=sig)
        E.prove('operands-unchanged', unchanged(E, a, sa_), sig=sig)
    return run


def g_sa_index(shapes):
    def run(E):
        m, n = E.pick(shapes, 'shape')
        a, da = mk_sa(E, 'a', m, n)
        form = E.pick(['row', 'elem', 'col', 'rowslice', 'fancy_rows', 'fancy_pairs', 'set_elem', 'set_row',
                       'set_col', 'set_all_scalar', 'set_all_2d', 'set_pairs'], 'form')
        i = E.choice(m, 'i')
        j = E.choice(n, 'j')
        sig = form
        if form == 'row':
            r = a[i]
            E.prove('value', same_dense(E, dense(r), da[i]), sig=sig)
            # row views are live: write through the view shows in the array
            v = E.real('w', nice=(-40, 40))
            r[j] = v
            exp = [list(row) for row in da]
            exp[i][j] = v
            E.prove('row-view-live', same_dense(E, dense(a), exp), sig=sig)
            C.check_sv_invariant(E, a, 'target', sig=sig)
        elif form == 'elem':
            E.prove('value', E.eq(a[i, j], da[i][j]), sig=sig)
        elif form == 'col':
            E.prove('value', same_dense(E, dense(a[:, j]), [row[j] for row in da]), sig=sig)
        elif form == 'rowslice':
            E.prove('value', same_dense(E, dense(a[i, :]), da[i]), sig=sig)
        elif form == 'fancy_rows':
            rows = [i, (i + 1) % m] if m > 1 else [i]
            E.prove('value', same_dense(E, dense(a[rows]), [da[k] for k in rows]), sig=sig)
        elif form == 'fancy_pairs':
            rows = [i, (i + 1) % m] if m > 1 else [i]
            cols = [j, (j + 1) % n] if m > 1 else [j]
            E.prove('value', same_dense(E, dense(a[rows, cols]), [da[r][c] for r, c in zip(rows, cols)]), sig=sig)
        else:
            exp = [list(row) for row in da]
            if form == 'set_elem':
                v = E.real('w', nice=(-40, 40))
                a[i, j] = v
                exp[i][j] = v
            elif form == 'set_row':
                vals = mk_vals(E, 'w', n)
                a[i] = C.array(E, vals)
                exp[i] = list(vals)
            elif form == 'set_col':
                vals = mk_vals(E, 'w', m)
                a[:, j] = C.array(E, vals)
                for r in range(m):
                    exp[r][j] = vals[r]
            elif form == 'set_all_scalar':
                v = E.real('w', nice=(-40, 40))
                a[:] = v
                exp = [[v] * n for _ in range(m)]
            elif form == 'set_all_2d':
                vals = [mk_vals(E, f'w{r}_', n) for r in range(m)]
                a[:] = C.array(E, vals)
                exp = [list(v) for v in vals]
            elif form == 'set_pairs':
                rows = [i, (i + 1) % m] if m > 1 else [i]
                cols = [j, (j + 1) % n] if m > 1 else [j]
                vals = mk_vals(E, 'w', len(rows))
                a[rows, cols] = C.array(E, vals)
                for r, c, v in zip(rows, cols, vals):
                    exp[r][c] = v
            got = dense(a)
            for k, g in enumerate(flat(got)):
                E.observe(f'a{k}', g)
            E.prove('value', same_dense(E, got, exp), sig=sig)
            C.check_sv_invariant(E, a, 'target', sig=sig)
    return run


# ---- logical vectors (pure structure: the solver contributes nothing but exhaustiveness here)
LOGIC = {
    'and': lambda a, b: bool(a) and bool(b),
    'or': lambda a, b: bool(a) or bool(b),
    'xor': lambda a, b: bool(a) != bool(b),
}


def g_slv(sizes):
    def run(E):
        op = E.pick(['and', 'or', 'xor', 'invert', 'eq', 'ne', 'iand', 'ior', 'ixor', 'any', 'all', 'sum', 'copy',
                     'getitem', 'setitem'], 'op')
        kind = E.pick(['slv', 'scalar', 'array', 'slv1'], 'kind')
        n = E.pick(sizes, 'n')
        a, da = mk_slv(E, 'a', n)
        sa_ = snapshot(a)
        sig = f'{op}/{kind}'
        if op in ('invert', 'any', 'all', 'sum', 'copy', 'getitem', 'setitem'):
            if kind != 'slv':
                raise core.PathAbort('unary')
            if op == 'invert':
                r = ~a
                E.prove('value', dense(r) == [not x for x in da], sig=sig)
                E.prove('result-shares-no-storage', no_alias(r, a), sig=sig)
            elif op == 'copy':
                r = a.copy()
                E.prove('value', dense(r) == da, sig=sig)
                E.prove('result-shares-no-storage', no_alias(r, a), sig=sig)
            elif op == 'any':
                E.prove('value', bool(a.any()) == any(da), sig=sig)
            elif op == 'all':
                E.prove('value', bool(a.all()) == all(da), sig=sig)
            elif op == 'sum':
                E.prove('value', a.sum() == sum(da), sig=sig)
            elif op == 'getitem':
                i = E.choice(n, 'i')
                E.prove('value', bool(a[i]) == da[i] and dense(a[[i]]) == [da[i]], sig=sig)
            else:
                i = E.choice(n, 'i')
                v = bool(E.choice(2, 'v'))
                a[i] = v
                exp = list(da)
                exp[i] = v
                E.prove('value', dense(a) == exp, sig=sig)
                return
            E.prove('operands-unchanged', unchanged(E, a, sa_), sig=sig)
            return
        if kind == 'slv':
            b, db = mk_slv(E, 'b', n)
        elif kind == 'slv1':
            b, db = mk_slv(E, 'b', 1)
        elif kind == 'scalar':
            db = bool(E.choice(2, 'k'))
            b = db
        else:
            db = [bool(E.choice(2, f'b{i}')) for i in range(n)]
            b = np.array(db)
        sb_ = snapshot(b)
        base = op[1:] if op.startswith('i') else op
        if base in LOGIC:
            exp = bmap(LOGIC[base], da, db)
        else:
            exp = bmap((lambda x, y: bool(x) == bool(y)) if base == 'eq' else (lambda x, y: bool(x) != bool(y)), da, db)
        if op.startswith('i'):
            r = getattr(a, f'__{op}__')(b)
            E.prove('returns-target', r is a, sig=sig)
            E.prove('value', dense(a) == exp, sig=sig)
            E.prove('other-operand-unchanged', unchanged(E, b, sb_), sig=sig)
            E.prove('target-shares-no-storage', no_alias(a, b), sig=sig)
        else:
            r = getattr(a, f'__{op}__')(b)
            E.prove('value', [bool(x) for x in dense(r)] == exp, sig=sig)
            E.prove('operands-unchanged', unchanged(E, a, sa_) and unchanged(E, b, sb_), sig=sig)
            E.prove('result-shares-no-storage', no_alias(r, a, b), sig=sig)
        C.check_sv_invariant(E, r, 'result', sig=sig)
    return run


def g_construct(sizes):
    """sparse(list) / SparseVector(list|dict|array) / SparseArray(2-d) from arbitrary values."""
    def run(E):
        form = E.pick(['sv_list', 'sv_array', 'sv_dict', 'sparse_1d', 'sparse_2d', 'sv_copy_ctor'], 'form')
        n = E.pick(sizes, 'n')
        if form == 'sparse_2d':
            vals = [mk_vals(E, f'x{r}_', n) for r in range(2)]
            r = sp.sparse(C.array(E, vals))
            exp = vals
        else:
            vals = mk_vals(E, 'x', n)
            exp = vals
            if form == 'sv_list':
                r = sp.SparseVector(list(vals))
            elif form == 'sv_array':
                r = sp.SparseVector(C.array(E, vals))
            elif form == 'sv_dict':
                r = sp.SparseVector({i: v for i, v in enumerate(vals)}, size=n)
            elif form == 'sparse_1d':
                r = sp.sparse(C.array(E, vals))
            else:
                src = sp.SparseVector(list(vals))
                r = sp.SparseVector(src)
                E.prove('result-shares-no-storage', no_alias(r, src), sig=form)
        E.prove('value', same_dense(E, dense(r), exp), sig=form)
        C.check_sv_invariant(E, r, 'result', sig=form)
    return run


def groups(tier):
    q = tier == 'quick'
    sizes = [1, 2, 3] if not q else [1, 2, 3]
    ops = ['add', 'sub', 'mul', 'truediv']
    cmps = ['eq', 'ne', 'gt', 'lt', 'ge', 'le']
    shapes = [(1, 2), (2, 2)] if q else [(1, 2), (2, 2), (2, 3), (3, 2)]
    g = {
        'sv-binop': (g_sv_binop(sizes, KINDS, ops), dict(max_paths=400000)),
        'sv-inplace': (g_sv_iop(sizes, KINDS, ops), dict(max_paths=400000)),
        'sv-compare': (g_sv_cmp(sizes if not q else [1, 2], [k for k in KINDS if k not in ('slv',)], cmps), dict(max_paths=600000)),
        'sv-reflected': (g_sv_reflected(sizes), {}),
        'sv-unary': (g_sv_unary(sizes), {}),
        'sv-reduce': (g_sv_reduce(sizes), {}),
        'sv-getitem': (g_sv_getitem(sizes), {}),
        'sv-setitem': (g_sv_setitem(sizes), dict(max_paths=400000)),
        'sv-readonly': (g_sv_readonly(sizes), {}),
        'sv-mix_from': (g_sv_mix_from([1, 2] if q else [1, 2, 3]), {}),
        'sa-binop': (g_sa_binop(shapes, SA_KINDS, ops, False), dict(max_paths=600000)),
        'sa-inplace': (g_sa_binop(shapes, SA_KINDS, ops, True), dict(max_paths=600000)),
        'sa-reduce': (g_sa_reduce(shapes), dict(max_paths=400000)),
        'sa-index': (g_sa_index(shapes), dict(max_paths=400000)),
        'slv-ops': (g_slv([1, 2, 3]), {}),
        'construct': (g_construct([1, 2, 3]), {}),
    }
    if not q:
        g['sa-compare'] = (g_sa_binop([(1, 2), (2, 2)], ['scalar', 'row_array', 'sv', 'sa_same', 'sa_1row'], cmps, False),
                           dict(max_paths=600000))
    return g
