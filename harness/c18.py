"""C18 — flowsheet connections stay mutually consistent under every rewiring operation.

Purely structural.  Pre-states = ALL wirings of the universe that satisfy the two-sided
invariant, produced by z3 AllSAT over an integer encoding (blocking clauses until unsat: the
final unsat certifies that no valid wiring inside the bound was skipped) and built directly
on real AbstractUnit / AbstractStream objects; then ONE operation with every argument that
meets the stated preconditions (inductive step => histories of any length), plus bounded
sequences from the constructor state.  The solver's role here is state generation and
exhaustiveness, not arithmetic."""
import itertools
import warnings

import thermosteam as tmo
import z3

from symx import core
from . import common as C

ID = 'C18'
REAL_REPLAY = False
STUBS = []
ASSUMPTIONS = [
    'preconditions of the property: appended/inserted streams are not docked on that side of any unit; a stream assigned to a port is not '
    'already in the same port list; slices / piped units supply no more streams than a fixed-size list holds',
    'variable-size port lists hold their streams in index order (order is irrelevant to the invariant)',
]
OUTSIDE = ['more than 3 units / 4 streams (thorough; three unit kinds together only with 3 streams)', 'auxiliary units, systems, registries', 'docking warnings']
BOUNDS = {
    'quick': dict(units='Fix(2 in,1 out) Var(variable in/out)', streams=3, step='1 operation from every valid wiring; sequences depth 2'),
    'thorough': dict(units='Fix(2 in,1 out) Var(variable): 4 streams; with Split(1 in,2 out): 3 streams', streams='3-4', step='1 operation from every valid wiring; sequences depth 3 (2 units)'),
}

_cls = {}
_states = {}


def setup(mode):
    C.begin_setup(mode)
    warnings.simplefilter('ignore')
    if not _cls:
        tmo.settings.set_thermo(tmo.Chemicals([]))

        class Fix(tmo.AbstractUnit):
            _N_ins = 2
            _N_outs = 1

        class Var(tmo.AbstractUnit):
            _N_ins = 1
            _N_outs = 1
            _ins_size_is_fixed = False
            _outs_size_is_fixed = False

        class Split(tmo.AbstractUnit):
            _N_ins = 1
            _N_outs = 2
        class Pipe(tmo.AbstractUnit):
            _N_ins = 1
            _N_outs = 1
        _cls.update(Fix=Fix, Var=Var, Split=Split, Pipe=Pipe)


def universe(kinds):
    return [_cls[k](None, ins=None, outs=None) for k in kinds]


def all_wirings(kinds, n_streams):
    """z3 AllSAT: per stream a sink port and a source port (0 = none); fixed ports hold at most
    one stream.  Returns (list of states, number of blocking rounds)."""
    key = (tuple(kinds), n_streams)
    if key in _states:
        return _states[key]
    in_ports, out_ports = [None], [None]
    for ui, k in enumerate(kinds):
        cls = _cls[k]
        if cls._ins_size_is_fixed:
            in_ports += [(ui, j) for j in range(cls._N_ins)]
        else:
            in_ports.append((ui, 'var'))
        if cls._outs_size_is_fixed:
            out_ports += [(ui, j) for j in range(cls._N_outs)]
        else:
            out_ports.append((ui, 'var'))
    s = z3.Solver()
    snk = [z3.Int(f'snk{i}') for i in range(n_streams)]
    src = [z3.Int(f'src{i}') for i in range(n_streams)]
    for i in range(n_streams):
        s.add(snk[i] >= 0, snk[i] < len(in_ports), src[i] >= 0, src[i] < len(out_ports))
    for i, j in itertools.combinations(range(n_streams), 2):
        for p, port in enumerate(in_ports):
            if port is not None and port[1] != 'var':
                s.add(z3.Not(z3.And(snk[i] == p, snk[j] == p)))
        for p, port in enumerate(out_ports):
            if port is not None and port[1] != 'var':
                s.add(z3.Not(z3.And(src[i] == p, src[j] == p)))
    states = []
    while s.check() == z3.sat:
        m = s.model()
        st = tuple((m.eval(snk[i], model_completion=True).as_long(), m.eval(src[i], model_completion=True).as_long())
                   for i in range(n_streams))
        states.append(st)
        s.add(z3.Or([z3.Or(snk[i] != st[i][0], src[i] != st[i][1]) for i in range(n_streams)]))
    states.sort()
    _states[key] = (states, in_ports, out_ports)
    return _states[key]


def build(kinds, n_streams, state, in_ports, out_ports):
    units = universe(kinds)
    streams = [tmo.AbstractStream(None) for _ in range(n_streams)]
    for si, (a, b) in enumerate(state):
        if a:
            ui, slot = in_ports[a]
            u = units[ui]
            if slot == 'var':
                u.ins.append(streams[si])
            else:
                u.ins[slot] = streams[si]
        if b:
            ui, slot = out_ports[b]
            u = units[ui]
            if slot == 'var':
                u.outs.append(streams[si])
            else:
                u.outs[slot] = streams[si]
    return units, streams


def invariant(units, streams, sizes=True):
    """list of violated clauses"""
    bad = []
    for ui, u in enumerate(units):
        for x in u.ins:
            if x:
                if x.sink is not u:
                    bad.append(f'inlet-of-U{ui}-has-other-sink')
            elif not isinstance(x, (tmo.network.AbstractMissingStream, tmo.AbstractStream)):
                bad.append('placeholder-type')
        for x in u.outs:
            if x:
                if x.source is not u:
                    bad.append(f'outlet-of-U{ui}-has-other-source')
        if sizes:
            if u._ins_size_is_fixed and len(u.ins) != u._N_ins:
                bad.append(f'fixed-inlets-of-U{ui}-changed-size')
            if u._outs_size_is_fixed and len(u.outs) != u._N_outs:
                bad.append(f'fixed-outlets-of-U{ui}-changed-size')
    for si, s in enumerate(streams):
        n_in = sum(1 for u in units for x in u.ins if x is s)
        n_out = sum(1 for u in units for x in u.outs if x is s)
        if n_in > 1:
            bad.append('stream-in-two-inlet-ports')
        if n_out > 1:
            bad.append('stream-in-two-outlet-ports')
        if s.sink is not None:
            if s.sink not in units or sum(1 for x in s.sink.ins if x is s) != 1:
                bad.append('sink-does-not-list-stream')
        elif n_in:
            bad.append('listed-inlet-without-sink')
        if s.source is not None:
            if s.source not in units or sum(1 for x in s.source.outs if x is s) != 1:
                bad.append('source-does-not-list-stream')
        elif n_out:
            bad.append('listed-outlet-without-source')
    return sorted(set(bad))


def docked_in(s, units):
    return any(x is s for u in units for x in u.ins)


def docked_out(s, units):
    return any(x is s for u in units for x in u.outs)


OPS = ['set-in', 'set-out', 'set-in-none', 'set-out-none', 'slice-in', 'slice-out', 'append-in', 'append-out', 'insert-in',
       'pop-in', 'pop-out', 'remove-in', 'remove-out', 'replace-in', 'replace-out', 'empty-in', 'empty-out', 'clear-in', 'clear-out',
       'disconnect-source', 'disconnect-sink', 'disconnect-stream', 'pipe-stream-into', 'pipe-out-of', 'pipe-unit-unit', 'pipe-tuple-into',
       'pipe-unit-tuple', 'unit-disconnect', 'unit-insert', 'take_place_of', 'replace_with', 'replace_with-other', 'reconnect']


def apply_op(E, op, units, streams):
    """performs one operation with nondeterministic arguments; PathAbort when preconditions fail"""
    nU, nS = len(units), len(streams)
    u = units[E.choice(nU, 'unit')]
    pre = core.PathAbort
    if op in ('set-in', 'set-out'):
        lst = u.ins if op == 'set-in' else u.outs
        fixed = u._ins_size_is_fixed if op == 'set-in' else u._outs_size_is_fixed
        # variable-size lists also accept the index one past the end (the list grows)
        n_idx = len(lst) + (0 if fixed else 1)
        if not n_idx:
            raise pre('empty list')
        i = E.choice(n_idx, 'index')
        s = streams[E.choice(nS, 'stream')]
        if any(x is s for x in lst):
            raise pre('stream already in the same port list')
        lst[i] = s
    elif op in ('set-in-none', 'set-out-none'):
        lst = u.ins if op == 'set-in-none' else u.outs
        if not len(lst):
            raise pre('empty list')
        lst[E.choice(len(lst), 'index')] = None
    elif op in ('slice-in', 'slice-out'):
        lst = u.ins if op == 'slice-in' else u.outs
        fixed = u._ins_size_is_fixed if op == 'slice-in' else u._outs_size_is_fixed
        cap = (u._N_ins if op == 'slice-in' else u._N_outs) if fixed else 2
        k = E.choice(cap + 1, 'n-supplied')
        chosen = []
        for j in range(k):
            s = streams[E.choice(nS, f'stream{j}')]
            if any(s is c for c in chosen):
                raise pre('duplicate in slice')
            chosen.append(s)
        lo, hi = E.pick([(None, None), (1, None), (None, 1)], 'slice-bounds')
        if (lo, hi) != (None, None):
            cur = list(lst)
            kept = cur[:lo] if hi is None else cur[hi:]
            if any(s is c for s in chosen for c in kept):
                raise pre('stream already in the same port list outside the slice')
            if fixed and len(kept) + len(chosen) > cap:
                raise pre('more streams than a fixed-size list holds')
        lst[lo:hi] = chosen
    elif op in ('append-in', 'append-out', 'insert-in'):
        side_in = op != 'append-out'
        fixed = u._ins_size_is_fixed if side_in else u._outs_size_is_fixed
        if fixed:
            raise pre('fixed size')
        s = streams[E.choice(nS, 'stream')]
        if (docked_in if side_in else docked_out)(s, units):
            raise pre('stream docked on that side')
        lst = u.ins if side_in else u.outs
        if op == 'insert-in':
            lst.insert(E.choice(len(lst) + 1, 'index'), s)
        else:
            lst.append(s)
    elif op in ('pop-in', 'pop-out'):
        lst = u.ins if op == 'pop-in' else u.outs
        if not len(lst):
            raise pre('empty list')
        lst.pop(E.choice(len(lst), 'index'))
    elif op in ('remove-in', 'remove-out', 'replace-in', 'replace-out'):
        lst = u.ins if op.endswith('-in') else u.outs
        members = [x for x in lst if x]
        if not members:
            raise pre('no stream to remove')
        s = members[E.choice(len(members), 'member')]
        if op.startswith('remove'):
            lst.remove(s)
        else:
            t = streams[E.choice(nS, 'other')]
            if any(x is t for x in lst):
                raise pre('replacement already in the list')
            lst.replace(s, t)
    elif op in ('empty-in', 'empty-out'):
        (u.ins if op == 'empty-in' else u.outs).empty()
    elif op in ('clear-in', 'clear-out'):
        (u.ins if op == 'clear-in' else u.outs).clear()
    elif op == 'disconnect-source':
        streams[E.choice(nS, 'stream')].disconnect_source()
    elif op == 'disconnect-sink':
        streams[E.choice(nS, 'stream')].disconnect_sink()
    elif op == 'disconnect-stream':
        streams[E.choice(nS, 'stream')].disconnect()
    elif op == 'pipe-stream-into':
        s = streams[E.choice(nS, 'stream')]
        n_idx = len(u.ins) + (0 if u._ins_size_is_fixed else 1)
        if not n_idx:
            raise pre('empty list')
        i = E.choice(n_idx, 'index')
        if any(x is s for x in u.ins):
            raise pre('stream already in the same port list')
        r = s-i-u
        if r is not u:
            raise AssertionError('pipe does not return the unit')
    elif op == 'pipe-out-of':
        s = streams[E.choice(nS, 'stream')]
        n_idx = len(u.outs) + (0 if u._outs_size_is_fixed else 1)
        if not n_idx:
            raise pre('empty list')
        i = E.choice(n_idx, 'index')
        if any(x is s for x in u.outs):
            raise pre('stream already in the same port list')
        r = u**i**s
        if r is not u:
            raise AssertionError('pipe does not return the unit')
    elif op == 'pipe-unit-unit':
        v = units[E.choice(nU, 'other-unit')]
        if v is u:
            raise pre('same unit')
        if v._ins_size_is_fixed and len(u.outs) > v._N_ins:
            raise pre('more streams than the fixed-size list holds')
        u-v
    elif op in ('pipe-tuple-into', 'pipe-unit-tuple'):
        into = op == 'pipe-tuple-into'
        fixed = u._ins_size_is_fixed if into else u._outs_size_is_fixed
        cap = (u._N_ins if into else u._N_outs) if fixed else 2
        k = 1 + E.choice(cap, 'n-supplied')
        chosen = []
        for j in range(k):
            s = streams[E.choice(nS, f'stream{j}')]
            if any(s is c for c in chosen):
                raise pre('duplicate')
            chosen.append(s)
        if into:
            tuple(chosen)-u
        else:
            u-tuple(chosen)
    elif op == 'unit-disconnect':
        u.disconnect()
    elif op == 'unit-insert':
        # insert a NEW unit (created with its default real streams) into the line carried by a
        # stream that joins two units
        s = streams[E.choice(nS, 'stream')]
        if s.source is None or s.sink is None:
            raise pre('stream does not join two units')
        kind = E.pick(['Pipe', 'Var'], 'inserted-kind')
        w = _cls[kind](None, ins=(), outs=())
        units.append(w)
        streams.extend([x for x in list(w.ins) + list(w.outs)])
        try:
            w.insert(s)
        except ValueError:
            raise pre('ambiguous ports')
    elif op == 'take_place_of':
        v = units[E.choice(nU, 'other-unit')]
        if v is u:
            raise pre('same unit')
        if (u._ins_size_is_fixed and len(v.ins) > u._N_ins) or (u._outs_size_is_fixed and len(v.outs) > u._N_outs):
            raise pre('more streams than the fixed-size list holds')
        u.take_place_of(v)
    elif op == 'replace_with':
        u.replace_with()
    elif op == 'replace_with-other':
        v = units[E.choice(nU, 'other-unit')]
        if v is u:
            raise pre('same unit')
        if (v._ins_size_is_fixed and len(u.ins) > v._N_ins) or (v._outs_size_is_fixed and len(u.outs) > v._N_outs):
            raise pre('more streams than the fixed-size list holds')
        u.replace_with(v)
    elif op == 'reconnect':
        s = streams[E.choice(nS, 'stream')]
        src, snk = s.source, s.sink
        con = tmo.network.Connection(src, src.outs.index(s) if src else None, s, snk.ins.index(s) if snk else None, snk)
        # rewire something else first, then restore the recorded connection
        t = streams[E.choice(nS, 'other')]
        if t is s:
            s.disconnect()
        else:
            if snk is not None and not any(x is t for x in snk.ins):
                snk.ins[con.sink_index] = t
            elif src is not None and not any(x is t for x in src.outs):
                src.outs[con.source_index] = t
            else:
                raise pre('nothing to rewire')
        con.reconnect()
        if s.source is not src or s.sink is not snk:
            raise AssertionError('reconnect did not restore the connection')
    else:
        raise KeyError(op)


def g_step(kinds, n_streams, ops):
    def run(E):
        states, in_ports, out_ports = all_wirings(kinds, n_streams)
        op = E.pick(ops, 'op')
        st = states[E.choice(len(states), 'wiring')]
        units, streams = build(kinds, n_streams, st, in_ports, out_ports)
        pre = invariant(units, streams)
        if pre:
            E.prove('generated-pre-state-satisfies-invariant', False, sig=';'.join(pre))
            return
        try:
            apply_op(E, op, units, streams)
        except AssertionError as e:
            E.prove('operation-contract', False, sig=f'{op}: {e}')
            return
        bad = invariant(units, streams)
        E.prove('wiring-invariant-after-operation', not bad, sig=f'{op}: ' + ';'.join(bad) if bad else op)
        holders = [x for u in units for x in list(u.ins) + list(u.outs) if not isinstance(x, tmo.AbstractStream)]
        E.prove('placeholders-report-no-material', all(not bool(x) for x in holders), sig=op)
    return run


def g_sequence(kinds, n_streams, ops, depth):
    """bounded sequences from the constructor state (all ports vacant)"""
    def run(E):
        units = universe(kinds)
        streams = [tmo.AbstractStream(None) for _ in range(n_streams)]
        done = []
        for d in range(depth):
            op = E.pick(ops, f'op{d}')
            try:
                apply_op(E, op, units, streams)
            except AssertionError as e:
                E.prove('operation-contract', False, sig=f'{op}: {e}')
                return
            done.append(op)
            bad = invariant(units, streams)
            if bad:
                E.prove('wiring-invariant-after-sequence', False, sig=f'{op}: ' + ';'.join(bad))
                return
        E.prove('wiring-invariant-after-sequence', True, sig='ok')
    return run


def g_constructor(kinds_list):
    """units constructed with ins/outs given as streams (some already docked elsewhere)"""
    def run(E):
        k1 = E.pick(kinds_list, 'first-unit')
        k2 = E.pick(kinds_list, 'second-unit')
        streams = [tmo.AbstractStream(None) for _ in range(3)]
        c1, c2 = _cls[k1], _cls[k2]
        n_in1 = E.choice(min(c1._N_ins, 2) + 1, 'n-ins-1')
        u1 = c1(None, ins=streams[:n_in1] or None, outs=None)
        # the second unit takes the first unit's outlet(s) and possibly one of its inlets (moving it)
        take_outlet = E.choice(2, 'second-takes-outlets-of-first')
        steal = E.choice(2, 'second-steals-an-inlet-of-first')
        ins2 = []
        if take_outlet:
            ins2 += [x for x in u1.outs][:c2._N_ins if c2._ins_size_is_fixed else 2]
        if steal and n_in1 and (len(ins2) < c2._N_ins or not c2._ins_size_is_fixed):
            ins2.append(streams[0])
        if any(not x for x in ins2):
            ins2 = [x for x in ins2 if x] + [tmo.AbstractStream(None) for x in ins2 if not x]
        u2 = c2(None, ins=ins2 or None, outs=None)
        allstreams = list(streams) + [x for u in (u1, u2) for x in list(u.ins) + list(u.outs) if x and x not in streams]
        bad = invariant([u1, u2], allstreams)
        E.prove('wiring-invariant-after-construction', not bad, sig=f'{k1},{k2}: ' + ';'.join(bad) if bad else f'{k1},{k2}')
    return run


def groups(tier):
    q = tier == 'quick'
    kinds = ['Fix', 'Var'] if q else ['Fix', 'Var', 'Split']
    n = 3 if q else 4
    seq_ops = ['set-in', 'set-out', 'append-in', 'append-out', 'pop-in', 'remove-out', 'slice-in', 'disconnect-stream',
               'pipe-unit-unit', 'unit-disconnect', 'empty-in', 'clear-in']
    g = {
        'single-step': (g_step(['Fix', 'Var'], n, OPS), dict(max_paths=20000000, witnesses=4)),
        'sequences': (g_sequence(['Fix', 'Var'], 2, seq_ops, 2), dict(max_paths=20000000, witnesses=4)),
        'constructors': (g_constructor(['Fix', 'Var', 'Split']), dict(witnesses=4)),
    }
    if not q:
        g['single-step-with-splitters'] = (g_step(['Fix', 'Var', 'Split'], 3, OPS), dict(max_paths=20000000, witnesses=4))
        g['sequences-depth-3'] = (g_sequence(['Fix', 'Var'], 2, seq_ops, 3),
                                  dict(max_paths=20000000, witnesses=4))
    return g
