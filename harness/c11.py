"""C11 — molar, mass and volumetric views and unit conversions of a stream always agree.

Private chemicals whose molar-volume handle V is a stub: V_i(phase, T, P) is an uninterpreted
positive function, so the agreement is decided for ARBITRARY volume models.  The real views
(by_mass / by_volume, MassFlowDict / VolumetricFlowDict), get/set_flow, total-flow setters,
unit factors (pint, concrete), link/unlink and phase changes run on symbolic flows, T, P."""
import thermosteam as tmo

from symx import core, isolation
from . import common as C
from . import streams as S

ID = 'C11'
REAL_REPLAY = False
STUBS = ['Chemical.V of the two private chemicals: PhaseTPHandle whose s/l/g models return a fresh positive unknown per distinct (chemical, phase, T, P)']
ASSUMPTIONS = ['flows symbolic > 0; T in {300, 350, 410} K and P in {101325, 250000} Pa (concrete, distinct: the |dT|,|dP| < 1e-12 tolerance of VolumetricFlowDict never applies); V_i(phase,T,P) an arbitrary positive unknown',
               'molecular weights and pint conversion factors are the concrete database values (taken as exact decimals)',
               "VolumetricFlowDict treats |dT|,|dP| < 1e-12 as unchanged (part of the model); rounding of x*f/f outside the claim"]
OUTSIDE = ['sequences longer than the stated depth', 'property-package reset sequences', 'more than 2 chemicals']
BOUNDS = {'quick': dict(depth='1 (all operations) + 2 (structure change then use)', chemicals=2, units='kmol/hr mol/s kg/hr lb/hr m3/hr gal/min'),
          'thorough': dict(depth='2 (all pairs) from a liquid stream', chemicals=2, units='as quick')}
N = 2
_fx = {}
UNITS = {'mol': ['kmol/hr', 'mol/s'], 'mass': ['kg/hr', 'lb/hr'], 'vol': ['m3/hr', 'gal/min']}
UNITS_T = {'mol': ['kmol/hr', 'mol/s'], 'mass': ['kg/hr', 'lb/hr', 'g/min'], 'vol': ['m3/hr', 'L/min', 'gal/min']}


_vcache = {}


class VModel:
    """V_i(phase, T, P): a fresh positive unknown per distinct (chemical, phase, T, P); T and P are
    drawn from small sets of distinct concrete values, so no uninterpreted function of symbolic
    arguments (and no |dT| < 1e-12 coincidences) is needed"""
    def __init__(self, i, ph):
        self.i, self.ph = i, ph

    def __bool__(self):
        return True

    def __call__(self, T, P=None):
        return vol_model(core.current(), self.i, self.ph, T, P)

    def copy(self):
        return self


def vol_model(E, i, ph, T, P):
    key = (i, ph, float(T), float(P))
    if key not in _vcache:
        _vcache[key] = E.real(f'V{i}_{ph}_{int(T)}_{int(P)}', lo=1e-6, hi=1.0, nice=(2e-5, 3e-2))
    return _vcache[key]


def setup(mode):
    install(C.begin_setup(mode))


def install(sym):
    """fixture + patches without resetting earlier patches (C14 adds this package to its own)"""
    if not _fx:
        from thermosteam.base.phase_handle import PhaseTPHandle
        chems = []
        for i, cid in enumerate(['Water', 'Ethanol']):
            c = tmo.Chemical(cid, cache=False)
            object.__setattr__(c, '_V', PhaseTPHandle('V', VModel(i, 's'), VModel(i, 'l'), VModel(i, 'g')))
            chems.append(c)
        chems = tmo.Chemicals(chems)
        tmo.settings.set_thermo(chems, cache=False)
        _fx['th'] = th = tmo.settings.get_thermo()
        _fx['MW'] = [float(x) for x in th.chemicals.MW]
        isolation.track(th.chemicals._index_cache)
        # conversion factors (concrete): units per base unit
        st = C.mod('thermosteam._stream')
        _fx['factor'] = {}
        for name, us in UNITS.items():
            for u in us:
                _fx['factor'][u] = tmo.Stream._get_flow_name_and_factor(u)[1]
        isolation.resnap()
    if sym:
        C.patch(S.SYM_MODULES + ['thermosteam.mixture.ideal_mixture_model', 'thermosteam.mixture.mixture'])
        C.setg(C.mod('thermosteam.base.sparse').SparseVector, 'dtype', core.symfloat)


def Vi(E, i, phase, T, P):
    return vol_model(E, i, phase.lower(), T, P)


def rows_of(s):
    d = s.imol.data
    if hasattr(d, 'rows'):
        return list(zip(s.imol._phases, d.rows))
    return [(s.phase, d)]


def check_views(E, s, sig):
    MW = _fx['MW']
    mol_rows = rows_of(s)
    imass, ivol = s.imass, s.ivol
    mass_rows = imass.data.rows if hasattr(imass.data, 'rows') else [imass.data]
    vol_rows = ivol.data.rows if hasattr(ivol.data, 'rows') else [ivol.data]
    cm, cv = [], []
    tot_mol = tot_mass = tot_vol = 0.0
    for (ph, mr), ar, vr in zip(mol_rows, mass_rows, vol_rows):
        for i in range(N):
            n = mr.dct.get(i, 0.0)
            m = ar.dct.get(i, 0.0) if i in mr.dct else 0.0
            v = vr.dct.get(i, 0.0) if i in mr.dct else 0.0
            cm.append(E.eq(m, n * MW[i]))
            if i in mr.dct:
                cv.append(E.eq(v, 1000. * n * Vi(E, i, ph, s.T, s.P)))
            tot_mol = tot_mol + n
            tot_mass = tot_mass + n * MW[i]
            if i in mr.dct:
                tot_vol = tot_vol + 1000. * n * Vi(E, i, ph, s.T, s.P)
    E.prove('mass-view-is-mol-times-MW', E.all(cm), sig=sig)
    E.prove('volumetric-view-is-mol-times-V-at-current-phase-T-P', E.all(cv), sig=sig)
    E.prove('F_mol-is-sum', E.eq(s.F_mol, tot_mol), sig=sig)
    E.prove('F_mass-is-sum', E.eq(s.F_mass, tot_mass), sig=sig)
    if not isinstance(s, tmo.MultiStream):
        E.prove('F_vol-is-sum', E.eq(s.F_vol, tot_vol), sig=sig)
    E.observe('F_mass', s.F_mass)
    S.check_invariant(E, s, 'data', sig=sig)


TS = [300.0, 350.0, 410.0]
PS = [101325.0, 250000.0]


def new_T(E, k, cur=None):
    return E.pick([t for t in TS if t != cur], f'T{k}')


def new_P(E, k, cur=None):
    return E.pick([p for p in PS if p != cur], f'P{k}')


def new_val(E, k):
    x = E.real(f'v{k}', nice=(0.5, 40))
    E.assume(x > 0)
    return x


def g_sequences(depth, start_kinds, alphabets=None, check_last_only=False):
    def run(E):
        th = _fx['th']
        IDs = th.chemicals.IDs
        _vcache.clear()
        kind = E.pick(start_kinds, 'start')
        if kind.startswith('ms:'):
            s, _ = S.mk_multistream(E, 'f', th, phases=kind[3:], presence=[1, 1])
        else:
            s, _ = S.mk_stream(E, 'f', th, kind, presence=[1, 1])
        s._thermal_condition._T = TS[0]
        s._thermal_condition._P = PS[0]
        touch = E.choice(2, 'views-created-before')
        if touch:
            s.imass, s.ivol
            s.ivol[(s.phases[0], IDs[0]) if isinstance(s, tmo.MultiStream) else IDs[0]]      # fills the molar-volume cache
        log = [f'start={kind}' + ('+views' if touch else '')]
        other = None
        for k in range(depth):
            multi = isinstance(s, tmo.MultiStream)
            ops = ['write', 'set_flow', 'set_total', 'T:=', 'P:=', 'link', 'unlink', 'copy_like'] + ([] if multi else ['phase:=', 'phases:=']) \
                + (['unlink-other', 'write-other'] if other is not None else [])
            if alphabets is not None:
                ops = [o for o in alphabets[k] if o in ops]
            op = E.pick(ops, f'op{k}')
            if op in ('write', 'set_flow'):
                view = E.pick(['mol', 'mass', 'vol'], f'view{k}')
                i = E.choice(N, f'i{k}')
                v = new_val(E, k)
                ph = s.phases[E.choice(len(s.phases), f'ph{k}')] if multi else None
                key = (ph, IDs[i]) if multi else IDs[i]
                if op == 'write':
                    getattr(s, 'i' + view)[key] = v
                    back = getattr(s, 'i' + view)[key]
                    log.append(f'write-{view}')
                    E.prove('write-then-read-returns-written-value', E.eq(back, v), sig=' ; '.join(log))
                else:
                    u = UNITS[view][-1]
                    s.set_flow(v, u, key)
                    back = s.get_flow(u, key)
                    log.append(f'set_flow-{u}')
                    E.prove('write-then-read-returns-written-value', E.eq(back, v), sig=' ; '.join(log))
                    u2 = [x for x in UNITS[view] if x != u][0]
                    f = _fx['factor']
                    E.prove('other-unit-differs-by-fixed-factor', E.eq(s.get_flow(u2, key) * f[u], v * f[u2]), sig=' ; '.join(log))
            elif op == 'set_total':
                view = E.pick(['mol', 'mass', 'vol'], f'view{k}')
                u = UNITS[view][-1]
                v = new_val(E, k)
                comp_before = [[r.dct.get(i, 0.0) for i in range(N)] for _, r in rows_of(s)]
                tot_before = sum(sum(r) for r in comp_before)
                if multi and view == 'vol':
                    raise core.PathAbort('multi-phase F_vol setter not explored')
                s.set_total_flow(v, u)
                log.append(f'set_total-{u}')
                E.prove('total-read-back', E.eq(s.get_total_flow(u), v), sig=' ; '.join(log))
                comp_after = [[r.dct.get(i, 0.0) for i in range(N)] for _, r in rows_of(s)]
                tot_after = sum(sum(r) for r in comp_after)
                E.prove('composition-unchanged-by-total', E.all([E.eq(a * tot_before, b * tot_after)
                                                                for ra, rb in zip(comp_after, comp_before) for a, b in zip(ra, rb)]), sig=' ; '.join(log))
            elif op == 'T:=':
                s.T = new_T(E, k, s.T)
                log.append('T:=')
            elif op == 'P:=':
                s.P = new_P(E, k, s.P)
                log.append('P:=')
            elif op == 'phase:=':
                s.phase = E.pick([p for p in 'lgs' if p != s.phase], f'phase{k}')
                log.append(f'phase:={s.phase}')
            elif op == 'phases:=':
                tgt = E.pick(['lg', 'ls'], f'phases{k}')
                if s.phase not in tgt:
                    raise core.PathAbort('target lacks the phase')
                s.phases = tgt
                log.append(f'phases:={tgt}')
            elif op in ('link', 'copy_like'):
                if multi:
                    o, _ = S.mk_multistream(E, f'o{k}', th, phases=''.join(s.phases), presence=[1, 1])
                else:
                    o, _ = S.mk_stream(E, f'o{k}', th, E.pick('lg', f'ophase{k}'), presence=[1, 1])
                o._thermal_condition._T = E.pick(TS, f'oT{k}')
                o._thermal_condition._P = PS[1]
                if E.choice(2, f'other-views-created{k}'):
                    o.imass, o.ivol
                if op == 'link':
                    flags = E.pick([(True, True, True), (True, False, True), (True, True, False), (False, True, True)], f'flags{k}')
                    s.link_with(o, *flags)
                    log.append(f'link{flags}')
                    other = o
                else:
                    s.copy_like(o)
                    log.append('copy_like')
            elif op == 'unlink':
                s.unlink()
                log.append('unlink')
            elif op == 'unlink-other':
                other.unlink()
                log.append('unlink-other')
            elif op == 'write-other':
                view = E.pick(['mol', 'mass'], f'view{k}')
                i = E.choice(N, f'i{k}')
                v = new_val(E, k)
                key = (other.phases[0], IDs[i]) if isinstance(other, tmo.MultiStream) else IDs[i]
                getattr(other, 'i' + view)[key] = v
                log.append(f'write-other-{view}')
            if check_last_only and k < depth - 1:
                continue
            check_views(E, s, ' ; '.join(log))
            if other is not None and op != 'link':
                check_views(E, other, ' ; '.join(log) + ' [linked stream]')
    return run


def g_dimensions():
    def run(E):
        th = _fx['th']
        s, _ = S.mk_stream(E, 'f', th, 'l', presence=[1, 1])
        bad = E.pick(['K', 'm', 'kg', 'Pa', 'kg/m3', 'J/hr'], 'bad-units')
        how = E.pick(['get_flow', 'set_flow', 'get_total_flow', 'set_total_flow'], 'how')
        try:
            if how == 'get_flow':
                s.get_flow(bad, 'Water')
            elif how == 'set_flow':
                s.set_flow(1.0, bad, 'Water')
            elif how == 'get_total_flow':
                s.get_total_flow(bad)
            else:
                s.set_total_flow(1.0, bad)
        except Exception as e:       # noqa
            E.prove('dimension-mismatch-rejected', type(e).__name__ in ('DimensionError', 'DimensionalityError', 'ValueError'), sig=f'{how}/{bad}',
                    info=dict(exc=repr(e)[:100]))
            return
        E.prove('dimension-mismatch-rejected', False, sig=f'{how}/{bad}')
    return run


def g_dimensions_views():
    """the molar / mass / volumetric views themselves (indexer.get_data / set_data with units): a unit of another
    dimension is rejected, also after that very unit was used legitimately through the view it belongs to"""
    def run(E):
        th = _fx['th']
        s, fl = S.mk_stream(E, 'f', th, 'l', presence=[1, 1])
        s._thermal_condition._T = TS[0]
        s._thermal_condition._P = PS[0]
        _vcache.clear()
        own = {'mol': 'mol/s', 'mass': 'lb/hr', 'vol': 'L/min'}
        view = E.pick(['mol', 'mass', 'vol'], 'view')
        foreign = E.pick([v for v in own if v != view], 'unit-of-view')
        unit = own[foreign]
        if E.choice(2, 'unit-used-legitimately-before'):
            getattr(s, 'i' + foreign).get_data(unit, 'Water')
        how = E.pick(['get_data', 'set_data'], 'how')
        before = [s.imol.data.dct.get(i, 0.0) for i in range(N)]
        sig = f'i{view}.{how}({unit})'
        try:
            if how == 'get_data':
                getattr(s, 'i' + view).get_data(unit, 'Water')
            else:
                getattr(s, 'i' + view).set_data(1.0, unit, 'Water')
        except Exception as e:       # noqa
            E.prove('dimension-mismatch-rejected', type(e).__name__ in ('DimensionError', 'DimensionalityError', 'ValueError'), sig=sig,
                    info=dict(exc=repr(e)[:100]))
            after = [s.imol.data.dct.get(i, 0.0) for i in range(N)]
            E.prove('rejected-write-leaves-the-flows-untouched', all(a is b or (E.concrete and a == b) for a, b in zip(after, before)), sig=sig)
            return
        E.prove('dimension-mismatch-rejected', False, sig=sig)
    return run


BUDGET_S = {'quick': 600, 'thorough': 1200}


def groups(tier):
    q = tier == 'quick'
    chain = ([['link', 'copy_like'], ['write', 'T:=', 'phase:=', 'unlink', 'unlink-other', 'write-other']] if q else
             [['link', 'copy_like', 'phases:=', 'T:='], ['write', 'set_total', 'T:=', 'P:=', 'phase:=', 'unlink', 'copy_like', 'unlink-other', 'write-other']])
    g = {
        # one operation from a stream whose views (and molar-volume memo) may already exist
        'single-operation': (g_sequences(1, ['l', 'g'] if q else ['l', 'g', 's']), dict(max_paths=200000, qtimeout_ms=20000)),
        'single-operation-multiphase': (g_sequences(1, ['ms:lg']), dict(max_paths=200000, qtimeout_ms=20000)),
        # a structural change (link / copy_like / phases / T) followed by a write, total, state change or unlink
        'structure-then-use': (g_sequences(2, ['l'], chain), dict(max_paths=400000, qtimeout_ms=20000)),
        # link, then either side unlinks, then a write on either side: the views of the two streams are independent again
        'link-unlink-then-write': (g_sequences(3, ['l'], [['link'], ['unlink', 'unlink-other'], ['write', 'write-other']], check_last_only=True), dict(max_paths=400000, qtimeout_ms=20000)),
        'dimension-mismatch': (g_dimensions(), {}),
        'dimension-mismatch-views': (g_dimensions_views(), {}),
    }
    if not q:
        g['two-operations'] = (g_sequences(2, ['l']), dict(max_paths=2000000, qtimeout_ms=20000, task_budget_s=300))
    return g
