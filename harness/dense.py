"""Dense reference semantics (NumPy's elementwise / broadcasting / reduction rules) over
nested Python lists, usable with symbolic and concrete numbers alike.  A dense value is a
scalar, a list (1-d) or a list of lists (2-d)."""
import importlib

import numpy as np


class Mismatch(Exception):
    pass


def shape(x):
    if isinstance(x, list):
        if not x:
            return (0,)
        return (len(x),) + shape(x[0])
    return ()


def bshape(sa, sb):
    out = []
    la, lb = len(sa), len(sb)
    for k in range(max(la, lb)):
        a = sa[la - 1 - k] if k < la else 1
        b = sb[lb - 1 - k] if k < lb else 1
        if a == b or b == 1:
            out.append(a)
        elif a == 1:
            out.append(b)
        else:
            raise Mismatch(f'{sa} vs {sb}')
    return tuple(reversed(out))


def _at(x, sx, idx):
    # idx is an index into the broadcast shape; map to x
    off = len(idx) - len(sx)
    for d, n in enumerate(sx):
        i = idx[off + d]
        x = x[0 if n == 1 else i]
    return x


def _build(shp, f, prefix=()):
    if not shp:
        return f(prefix)
    return [_build(shp[1:], f, prefix + (i,)) for i in range(shp[0])]


def bmap(f, a, b):
    sa, sb = shape(a), shape(b)
    out = bshape(sa, sb)
    return _build(out, lambda idx: f(_at(a, sa, idx), _at(b, sb, idx)))


def umap(f, a):
    if isinstance(a, list):
        return [umap(f, i) for i in a]
    return f(a)


def flat(x):
    if isinstance(x, list):
        for i in x:
            yield from flat(i)
    else:
        yield x


def dense(x):
    """Dense image of any operand / result kind."""
    sp = importlib.import_module('thermosteam.base.sparse')
    if isinstance(x, sp.SparseArray):
        return [dense(r) for r in x.rows]
    if isinstance(x, sp.SparseVector):
        return [x.dct.get(i, 0.0) for i in range(x.size)]
    if isinstance(x, sp.SparseLogicalVector):
        return [i in x.set for i in range(x.size)]
    if isinstance(x, np.ndarray):
        if x.ndim == 0:
            return x.item()
        return [dense(i) for i in x]
    if isinstance(x, (list, tuple)):
        return [dense(i) for i in x]
    if isinstance(x, (np.floating, np.integer, np.bool_)):
        return x.item()
    return x


def squeeze_leading(x):
    """NumPy scalar results come back as 0-d; (1,)-shaped sparse results are kept."""
    return x
