"""C01 — mixing, splitting, separating, moving and scaling streams conserves every chemical."""
import numpy as np
import thermosteam as tmo

from symx import core
from . import common as C
from . import streams as S

ID = 'C01'
REAL_REPLAY = False
STUBS = []
ASSUMPTIONS = [
    'flows are reals >= 0 with an explicit presence pattern (present => > 0); IEEE rounding of sums is outside the claim',
    'energy_balance=False for mixing/separating (the energy branch is C02); split_to runs with and without it',
    'receiver package contains every chemical of the inlets (property quantifier)',
]
OUTSIDE = ['more than 3 chemicals per package / more than 3 inlets', 'vle=True mixing (C03)', 'rounding of split*feed']
BOUNDS = {
    'quick': dict(chemicals=3, inlets='0..2', phases='l g s L S + MultiStream lg', packages='A(W,E,O) B(O,W) C(E,W,O)'),
    'thorough': dict(chemicals=3, inlets='0..3', phases='l g s L S + MultiStream lg / Ll', packages='A B C'),
}


def setup(mode):
    sym = C.begin_setup(mode)
    S.packages()
    if sym:
        C.patch(S.SYM_MODULES)
        C.setg(C.mod('thermosteam.base.sparse').SparseVector, 'dtype', core.symfloat)


def _inlet(E, j, pk, kinds, pkgs):
    kind = E.pick(kinds, f'in{j}-kind')
    pname = E.pick(pkgs, f'in{j}-pkg')
    th = pk[pname]
    other = pname != pkgs[0]      # inlets of another package: also vary the dict insertion order
    if kind.startswith('ms:'):
        s, fl = S.mk_multistream(E, f'i{j}', th, phases=kind[3:], vary_order=other)
    else:
        s, fl = S.mk_stream(E, f'i{j}', th, phase=kind, vary_order=other)
    return s


def _expected_totals(recv_thermo, inlets_totals):
    """sum of inlets' per-chemical totals mapped by CAS into the receiver's order"""
    n = recv_thermo.chemicals.size
    exp = [0.0] * n
    for th, tot in inlets_totals:
        m = S.cas_map(th, recv_thermo)
        for i, x in enumerate(tot):
            if m[i] is None:
                if not (isinstance(x, float) and x == 0.0):
                    raise core.PathAbort('inlet chemical missing in receiver package (outside quantifier)')
                continue
            exp[m[i]] = exp[m[i]] + x
    return exp


def g_mix(max_in, kinds, pkgs, recv_kinds, main='A'):
    def run(E):
        pk = S.packages()
        rk = E.pick(recv_kinds, 'recv-kind')
        n_in = E.choice(max_in + 1, 'n-inlets')
        inlets = []
        recv = None
        for j in range(n_in):
            if recv is None and E.choice(2, f'in{j}-is-recv'):
                # the receiver is itself an inlet (possibly listed twice)
                th = pk[main]
                if rk.startswith('ms:'):
                    recv, _ = S.mk_multistream(E, 'r', th, phases=rk[3:])
                else:
                    recv, _ = S.mk_stream(E, 'r', th, phase=rk)
                inlets.append(recv)
                if E.choice(2, f'recv-twice@{j}') and j + 1 < n_in:
                    inlets.append(recv)
            else:
                inlets.append(_inlet(E, j, pk, kinds, pkgs))
        inlets = inlets[:max(n_in, 0)] if len(inlets) > n_in else inlets
        if recv is None:
            th = pk[main]
            if rk.startswith('ms:'):
                recv, _ = S.mk_multistream(E, 'r', th, phases=rk[3:])
            else:
                recv, _ = S.mk_stream(E, 'r', th, phase=rk)
        before = [(s.thermo if hasattr(s, 'thermo') else s._thermo, S.totals(s)) for s in inlets]
        exp = _expected_totals(recv._thermo, [(s._thermo, t) for s, (_, t) in zip(inlets, before)])
        others = [s for s in inlets if s is not recv]
        snaps = [S.by_phase(s) for s in others]
        sig = f'recv={rk}/n={len(inlets)}'
        recv.mix_from(inlets, energy_balance=False)
        got = S.totals(recv)
        for i, g in enumerate(got):
            E.observe(f'tot{i}', g)
        E.prove('mixed-total-equals-sum-of-inlets', E.all([E.eq(g, e) for g, e in zip(got, exp)]), sig=sig)
        S.check_invariant(E, recv, 'receiver', sig=sig)
        nonneg = [E.ge(x, 0.0) for ph in S.by_phase(recv).values() for x in ph]
        E.prove('no-negative-flow', E.all(nonneg), sig=sig)
        same = []
        for s, snap in zip(others, snaps):
            now = S.by_phase(s)
            same.append(now.keys() == snap.keys())
            for ph in snap:
                if ph in now:
                    same.extend(a is b or (E.concrete and a == b) for a, b in zip(now[ph], snap[ph]))
        E.prove('inlets-unchanged', all(same), sig=sig)
    return run


def _split_vector(E, kind, n):
    if kind == 'scalar':
        x = E.real('split', lo=0, hi=1, nice=(0.1, 0.9))
        return x, [x] * n
    xs = [E.real(f'split{i}', lo=0, hi=1, nice=(0.1, 0.9)) for i in range(n)]
    return C.array(E, xs), xs


def g_split(feed_kinds, out_pkgs, main='A'):
    def run(E):
        pk = S.packages()
        fk = E.pick(feed_kinds, 'feed-kind')
        sk = E.pick(['scalar', 'vector'], 'split-kind')
        eb = bool(E.choice(2, 'energy_balance'))
        th = pk[main]
        n = th.chemicals.size
        if fk.startswith('ms:'):
            feed, _ = S.mk_multistream(E, 'f', th, phases=fk[3:])
        else:
            feed, _ = S.mk_stream(E, 'f', th, phase=fk)
        split, sv = _split_vector(E, sk, n)
        op = E.pick(out_pkgs, 'out-pkg')
        tho = pk[op]
        # outlets start with arbitrary previous contents (must be overwritten)
        s1, _ = S.mk_stream(E, 'o1_', tho, phase='l', presence=[1] * tho.chemicals.size if E.choice(2, 'o1-dirty') else [0] * tho.chemicals.size)
        s2, _ = S.mk_stream(E, 'o2_', tho, phase='l', presence=[0] * tho.chemicals.size)
        before = S.by_phase(feed)
        tot = S.totals(feed)
        m = S.cas_map(th, tho)
        for i, x in enumerate(tot):
            if m[i] is None and not (isinstance(x, float) and x == 0.0):
                raise core.PathAbort('feed chemical missing in outlet package (outside quantifier)')
        sig = f'feed={fk}/{sk}/eb={eb}/out={op}'
        feed.split_to(s1, s2, split, energy_balance=eb)
        t1, t2 = S.totals(s1), S.totals(s2)
        c1, c2 = [], []
        for i in range(n):
            if m[i] is None:
                continue
            c1.append(E.eq(t1[m[i]], sv[i] * tot[i]))
            c2.append(E.eq(t2[m[i]], tot[i] - sv[i] * tot[i]))
            E.observe(f's1_{i}', t1[m[i]])
            E.observe(f's2_{i}', t2[m[i]])
        E.prove('top-is-split-times-feed', E.all(c1), sig=sig)
        E.prove('bottom-is-feed-minus-top', E.all(c2), sig=sig)
        # nothing else appears in the outlets
        extra = [E.eq(t1[k], 0.0) for k in range(tho.chemicals.size) if k not in [m[i] for i in range(n)]]
        E.prove('no-foreign-material', E.all(extra), sig=sig)
        if fk.startswith('ms:') and isinstance(s1, tmo.MultiStream):
            b1, b2 = S.by_phase(s1), S.by_phase(s2)
            cond = []
            for ph, fl in before.items():
                for i in range(n):
                    if m[i] is None:
                        continue
                    cond.append(E.eq(b1[ph][m[i]], sv[i] * fl[i]))
                    cond.append(E.eq(b2[ph][m[i]], fl[i] - sv[i] * fl[i]))
            E.prove('split-per-phase', E.all(cond), sig=sig)
        S.check_invariant(E, s1, 'top', sig=sig)
        S.check_invariant(E, s2, 'bottom', sig=sig)
        now = S.by_phase(feed)
        E.prove('feed-unchanged', all(a is b or (E.concrete and a == b) for ph in before for a, b in zip(now[ph], before[ph])), sig=sig)
    return run


def g_separate(kinds, pkgs, recv_kinds, main='A'):
    def run(E):
        pk = S.packages()
        rk = E.pick(recv_kinds, 'recv-kind')
        th = pk[main]
        via_mix = E.choice(2, 'build-by-mixing')
        other = _inlet(E, 1, pk, kinds, pkgs)
        if rk.startswith('ms:'):
            phases = rk[3:]
            for ph in (other.phases if isinstance(other, tmo.MultiStream) else [other.phase]):
                if ph not in phases:
                    raise core.PathAbort('phase of the separated stream absent from the mixture')
        if via_mix:
            rest = _inlet(E, 0, pk, kinds if not rk.startswith('ms:') else [k for k in kinds if not k.startswith('ms:') and k in rk[3:]] or ['l'], pkgs)
            if rk.startswith('ms:'):
                a = tmo.MultiStream(None, thermo=th, phases=rk[3:])
            else:
                a = tmo.Stream(None, thermo=th, phase=rk)
            rest_tot = _expected_totals(th, [(rest._thermo, S.totals(rest))])
            _expected_totals(th, [(other._thermo, S.totals(other))])
            a.mix_from([rest, other], energy_balance=False)
            exp = rest_tot
        else:
            if rk.startswith('ms:'):
                a, _ = S.mk_multistream(E, 'a', th, phases=rk[3:])
            else:
                a, _ = S.mk_stream(E, 'a', th, phase=rk)
            ot = _expected_totals(th, [(other._thermo, S.totals(other))])
            exp = [x - y for x, y in zip(S.totals(a), ot)]
        sig = f'recv={rk}/via_mix={via_mix}'
        snap = S.by_phase(other)
        a.separate_out(other, energy_balance=False)
        got = S.totals(a)
        for i, g in enumerate(got):
            E.observe(f'tot{i}', g)
        E.prove('remainder-restored', E.all([E.eq(g, e) for g, e in zip(got, exp)]), sig=sig)
        S.check_invariant(E, a, 'mixture', sig=sig)
        now = S.by_phase(other)
        E.prove('separated-stream-unchanged', all(a_ is b or (E.concrete and a_ == b) for ph in snap for a_, b in zip(now[ph], snap[ph])), sig=sig)
    return run


def g_copy_flow(src_kinds, dst_kinds, pkgs, main='A'):
    """dst.copy_flow(src, ...): the destination starts empty (Stream destinations may also start
    dirty: selected chemicals are overwritten, the others keep their value)."""
    def run(E):
        pk = S.packages()
        sk = E.pick(src_kinds, 'src-kind')
        dk = E.pick(dst_kinds, 'dst-kind')
        ths = pk[E.pick(pkgs, 'src-pkg')]
        thd = pk[main]
        nd = thd.chemicals.size
        if sk.startswith('ms:'):
            src, _ = S.mk_multistream(E, 's', ths, phases=sk[3:])
        else:
            src, _ = S.mk_stream(E, 's', ths, phase=sk)
        dirty = (not dk.startswith('ms:')) and E.choice(2, 'dst-dirty')
        if dk.startswith('ms:'):
            dst, _ = S.mk_multistream(E, 'd', thd, phases=dk[3:], presence=[0] * nd)
        else:
            dst, _ = S.mk_stream(E, 'd', thd, phase=dk, presence=[1] * nd if dirty else [0] * nd)
        ids_kind = E.pick(['all', 'one', 'tuple'], 'IDs')
        remove = bool(E.choice(2, 'remove'))
        exclude = bool(E.choice(2, 'exclude'))
        ids_all = list(ths.chemicals.IDs)
        if ids_kind == 'all':
            IDs = ...
            sel = set() if exclude else set(ids_all)
        elif ids_kind == 'one':
            IDs = ids_all[E.choice(len(ids_all), 'which')]
            sel = (set(ids_all) - {IDs}) if exclude else {IDs}
        else:
            IDs = tuple(ids_all[:2])
            sel = (set(ids_all) - set(IDs)) if exclude else set(IDs)
        sig = f'{sk}->{dk}/IDs={ids_kind}/remove={remove}/exclude={exclude}' + ('/dirty' if dirty else '')
        m = S.cas_map(ths, thd)
        src_before = S.totals(src)
        dst_before = S.totals(dst)
        src_snap, dst_snap = S.by_phase(src), S.by_phase(dst)
        kw = dict(remove=remove, exclude=exclude)
        phase_arg = ...
        if isinstance(dst, tmo.MultiStream) and not isinstance(src, tmo.MultiStream) and not exclude:
            # an explicit phase: only material of THAT phase is copied (a single-phase source in another phase gives nothing)
            phase_arg = E.pick([..., 'l', 'g'], 'phase-argument')
        try:
            if isinstance(dst, tmo.MultiStream):
                dst.copy_flow(src, phase_arg, IDs, **kw)
            else:
                dst.copy_flow(src, IDs, **kw)
        except (ValueError, TypeError, IndexError) as e:
            # a refusal (e.g. MultiStream.copy_flow across packages) must leave both streams intact
            now_s, now_d = S.by_phase(src), S.by_phase(dst)
            clean = all(a is b or (E.concrete and a == b) for ph in src_snap for a, b in zip(now_s[ph], src_snap[ph])) and \
                all(a is b or (E.concrete and a == b) for ph in dst_snap for a, b in zip(now_d[ph], dst_snap[ph]))
            E.prove('refusal-leaves-streams-intact', clean, sig=sig, info=dict(exc=repr(e)[:200]))
            return
        src_after, dst_after = S.totals(src), S.totals(dst)
        if phase_arg is not ... and phase_arg != src.phase:
            E.prove('explicit-other-phase-moves-nothing',
                    E.all([E.eq(a, b) for a, b in zip(src_after, src_before)] + [E.eq(a, b) for a, b in zip(dst_after, dst_before)]), sig=sig + f'/phase={phase_arg}')
            return
        cons, kept, dest = [], [], []
        for i, cid in enumerate(ids_all):
            j = m[i]
            if cid in sel:
                dest.append(E.eq(dst_after[j], src_before[i]))
            elif not dirty:
                dest.append(E.eq(dst_after[j], 0.0))
            else:
                dest.append(E.eq(dst_after[j], dst_before[j]))
            if remove:
                # whatever left the source arrived, whatever arrived left the source
                cons.append(E.eq((dst_after[j] - (0.0 if cid in sel or not dirty else dst_before[j])) + src_after[i], src_before[i]))
                if cid not in sel:
                    kept.append(E.eq(src_after[i], src_before[i]))
            else:
                kept.append(E.eq(src_after[i], src_before[i]))
            E.observe(f'dst{j}', dst_after[j])
            E.observe(f'src{i}', src_after[i])
        E.prove('destination-receives-selected-flows', E.all(dest), sig=sig)
        E.prove('moved-material-neither-duplicated-nor-lost', E.all(cons), sig=sig)
        E.prove('source-untouched-elsewhere', E.all(kept), sig=sig)
        S.check_invariant(E, src, 'source', sig=sig)
        S.check_invariant(E, dst, 'destination', sig=sig)
    return run


def g_scale(kinds, main='A'):
    def run(E):
        pk = S.packages()
        k_ = E.pick(kinds, 'kind')
        how = E.pick(['scale', 'mul', 'rmul', 'imul', 'truediv', 'F_mol', 'itruediv'], 'how')
        th = pk[main]
        if k_.startswith('ms:'):
            s, _ = S.mk_multistream(E, 's', th, phases=k_[3:])
        else:
            s, _ = S.mk_stream(E, 's', th, phase=k_)
        before = S.by_phase(s)
        k = E.real('k', lo=0, nice=(0.25, 8))
        sig = f'{k_}/{how}'
        factor = k
        r = s
        if how == 'scale':
            s.scale(k)
        elif how == 'mul':
            r = s * k
        elif how == 'rmul':
            r = k * s
        elif how == 'imul':
            s *= k
        elif how == 'truediv':
            E.assume(k > 0)
            r = s / k
            factor = 1 / k
        elif how == 'itruediv':
            E.assume(k > 0)
            s /= k
            factor = 1 / k
        else:
            tot = sum(S.totals(s))
            if isinstance(tot, float) and tot == 0.0:
                raise core.PathAbort('empty stream: F_mol setter undefined')
            s.F_mol = k
            factor = k / tot
        after = S.by_phase(r)
        cond = []
        for ph in before:
            for i, (a, b) in enumerate(zip(after[ph], before[ph])):
                cond.append(E.eq(a, factor * b))
                E.observe(f'{ph}{i}', a)
        E.prove('every-flow-multiplied', E.all(cond), sig=sig)
        S.check_invariant(E, r, 'result', sig=sig)
        if r is not s:
            now = S.by_phase(s)
            E.prove('operand-unchanged', all(a is b or (E.concrete and a == b) for ph in before for a, b in zip(now[ph], before[ph])), sig=sig)
    return run


BUDGET_S = {'quick': 600, 'thorough': 1200}


def groups(tier):
    q = tier == 'quick'
    phases1 = ['l', 'g', 's', 'L', 'S']
    if q:
        main, same, other = 'A2', ['A2'], ['A2', 'B2', 'D1']
        kinds = ['l', 'g', 'ms:lg']
    else:
        main, same, other = 'A', ['A'], ['A', 'B', 'C']
        kinds = phases1 + ['ms:lg', 'ms:Ll']
    g = {
        'mix-stream-receiver': (g_mix(2 if q else 3, kinds if q else ['l', 'g', 'ms:lg'], other, ['l'], main), dict(max_paths=3000000)),
        'mix-multistream-receiver': (g_mix(2, ['l', 'g', 'ms:lg'], ['A2', 'B2'] if q else ['A', 'B'], ['ms:lg'], main), dict(max_paths=3000000)),
        'mix-phases': (g_mix(2, phases1 + ['ms:Ll'], ['D1'] if q else ['A2'], ['l', 'g', 'S', 'ms:ls', 'ms:lg'], 'D1' if q else 'A2'),
                       dict(max_paths=3000000)),
        'split': (g_split(['l', 'g', 'ms:lg'], ['A2', 'B2'] if q else ['A', 'C'], main), dict(max_paths=1000000)),
        'separate': (g_separate(['l', 'g', 'ms:lg'], other if q else ['A', 'B'], ['l', 'ms:lg'], main), dict(max_paths=1000000)),
        'copy_flow': (g_copy_flow(['l', 'ms:lg'], ['l', 'ms:lg'], other if q else ['A', 'B'], main), dict(max_paths=1000000)),
        'scale': (g_scale(['l', 'ms:lg'], main), {}),
    }
    return g
