"""C02 — stream energy balance: enthalpy is conserved on mixing / separating and the H (S) setters
invert the enthalpy (entropy) the stream reports.

The enthalpy / entropy models are UNINTERPRETED functions of (phase, composition, T, P); the
temperature solves are stubs with the contract "the value the stream reports at the returned T
equals the target".  The real Stream.mix_from (energy branch), separate_out, H / S / Hnet getters
and setters, _get_property memo and the pressure rule run on symbolic flows, T, P and Q."""
import thermosteam as tmo

from symx import core
from . import common as C
from . import streams as S
from . import c03

ID = 'C02'
REAL_REPLAY = False
STUBS = ['thermo.mixture: H, S (and xH, xS as sums over phases) uninterpreted functions of (phase, composition, T, P)',
         'solve_T_at_HP / solve_T_at_SP / xsolve_T_at_HP / xsolve_T_at_SP: fresh T* with the contract total * model(x, T*) == target']
ASSUMPTIONS = ['flows symbolic > 0 on a presence pattern, T in (250, 500), P in (1e4, 1e7), Q symbolic',
               'the receiver may be one of the inlets (group mix-into-one-of-the-inlets)']
OUTSIDE = ['convergence and accuracy of the real Aitken/secant temperature solve for real Cn(T) data', '"assigning the value it already has leaves T unchanged" (a statement about the real solver)',
           'vle=True mixing']
BOUNDS = {'quick': dict(chemicals=2, inlets='<=2', kinds='Stream l/g, MultiStream lg'), 'thorough': dict(chemicals=2, inlets='<=3 single-phase inlets; MultiStream inlets <=2')}
N = 2
_fx = {}


def setup(mode):
    sym = C.begin_setup(mode)
    if not _fx:
        _fx['th'] = S.packages()['A2']
    if sym:
        C.patch(S.SYM_MODULES)
        C.setg(C.mod('thermosteam.base.sparse').SparseVector, 'dtype', core.symfloat)


class Mix(c03.StubMixture):
    def _solve(self, model, args_of_T, total, target, tag):
        self.k += 1
        self.E.stub_called('solve_T')
        Ts = self.E.real(f'Tsolved{self.k}', lo=150., hi=3000., nice=(300, 600))
        self.E.assume(self.E.eq(total * model(Ts), target), f'{tag}: total * model(x, T*) == target')
        return Ts

    def solve_T_at_HP(self, phase, mol, H, T, P):
        tot = sum(self._flows(mol))
        comp = mol / tot
        return self._solve(lambda Ts: self.H(phase, comp, Ts, P), None, tot, H, 'H')

    def solve_T_at_SP(self, phase, mol, S_, T, P):
        tot = sum(self._flows(mol))
        comp = mol / tot
        return self._solve(lambda Ts: self.S(phase, comp, Ts, P), None, tot, S_, 'S')

    def xsolve_T_at_HP(self, phase_mol, H, T, P):
        pm = [(ph, mol) for ph, mol in phase_mol]
        tot = sum(sum(self._flows(m)) for _, m in pm)
        norm = [(ph, m / tot) for ph, m in pm]
        return self._solve(lambda Ts: self.xH(norm, Ts, P), None, tot, H, 'xH')

    def xsolve_T_at_SP(self, phase_mol, S_, T, P):
        pm = [(ph, mol) for ph, mol in phase_mol]
        tot = sum(sum(self._flows(m)) for _, m in pm)
        norm = [(ph, m / tot) for ph, m in pm]
        return self._solve(lambda Ts: self.xS(norm, Ts, P), None, tot, S_, 'xS')


def thermo(E):
    th = c03.StubThermo(_fx['th'], E)
    th.mixture = Mix(E, N)
    return th


def mk(E, name, kind, presence=None):
    th = _fx['th']
    if kind.startswith('ms:'):
        s, fl = S.mk_multistream(E, name, th, phases=kind[3:], presence=presence)
    else:
        s, fl = S.mk_stream(E, name, th, kind, presence=presence)
    s._thermo = thermo(E)
    s._thermal_condition._T = E.real(f'{name}T', lo=250, hi=500, nice=(280, 400))
    s._thermal_condition._P = E.real(f'{name}P', lo=1e4, hi=1e7, nice=(5e4, 5e5))
    return s, fl


def empty(s):
    return all(S.is_zero(x) for x in S.totals(s))


def g_mix(kinds, max_in, self_mix=False):
    def run(E):
        n_in = 1 + E.choice(max_in, 'n-inlets')
        ins = []
        for j in range(n_in):
            k = E.pick(kinds, f'in{j}-kind')
            s, _ = mk(E, f'i{j}', k)
            ins.append(s)
        recv, _ = mk(E, 'r', 'l', [0] * N if not self_mix else None)
        inlets = list(ins) + ([recv] if self_mix else [])
        with_Q = E.choice(2, 'heat-given')
        Q = E.real('Q', nice=(-1e5, 1e5)) if with_Q else 0.0
        nonempty = [s for s in inlets if not empty(s)]
        if not nonempty:
            raise core.PathAbort('all inlets empty (quantifier: non-empty inlet sets)')
        H_in = [s.H for s in nonempty]
        P_in = [s.P for s in nonempty]
        sig = f'inlets={[("ms" if isinstance(s, tmo.MultiStream) else s.phase) for s in ins]}/Q={with_Q}/self={self_mix}'
        recv.mix_from(inlets, energy_balance=True, Q=Q)
        exp_H = sum(H_in) + Q
        got = recv.H
        E.observe('H', got)
        sig += f'/nonempty={len(nonempty)}'
        # (a single non-empty inlet is copied by the library - copy_like - and the heat added on top)
        E.prove('receiver-H-is-sum-of-inlet-H-plus-Q', E.eq(got, exp_H), sig=sig)
        # pressure = lowest pressure among the non-empty inlets
        conds = [E.le(recv.P, p) for p in P_in] + [E.any([E.eq(recv.P, p) for p in P_in])]
        E.prove('receiver-P-is-lowest-inlet-P', E.all(conds), sig=sig)
    return run


def g_separate(kinds):
    def run(E):
        a, _ = mk(E, 'a', E.pick(kinds, 'kind-a'), [1] * N)
        b, _ = mk(E, 'b', E.pick([k for k in kinds if not k.startswith('ms')], 'kind-b'))
        if isinstance(a, tmo.MultiStream) and b.phase not in a.phases:
            raise core.PathAbort('phase absent')
        if empty(b):
            raise core.PathAbort('nothing to separate')
        # the separated stream is contained in the mixture (it was mixed in before)
        ta, tb = S.totals(a), S.totals(b)
        for x, y in zip(ta, tb):
            if not S.is_zero(y):
                E.assume(y < x if not E.concrete else y < x, 'separated flow < mixture flow')
        Ha, Hb = a.H, b.H
        a.separate_out(b, energy_balance=True)
        if empty(a):
            raise core.PathAbort('everything separated out')
        E.observe('H', a.H)
        E.prove('separate_out-leaves-H-difference', E.eq(a.H, Ha - Hb), sig=f'{type(a).__name__}')
    return run


def g_setters(kinds):
    def run(E):
        s, _ = mk(E, 's', E.pick(kinds, 'kind'), [1] * N)
        what = E.pick(['H', 'S', 'Hnet'], 'what')
        v = E.real('target', nice=(-1e5, 1e5))
        T_before = s.T
        setattr(s, what, v)
        got = getattr(s, what)
        E.observe(what, got)
        E.prove('assigned-value-is-read-back', E.eq(got, v), sig=f'{type(s).__name__}/{what}')
        # empty stream: assigning zero is a no-op
    return run


BUDGET_S = {'quick': 400, 'thorough': 1200}


def groups(tier):
    q = tier == 'quick'
    kinds = ['l', 'g', 'ms:lg']
    g = {
        'mix-energy-balance': (g_mix(['l', 'g'], 2 if q else 3), dict(max_paths=1000000, qtimeout_ms=20000, stubs_required=('solve_T',))),
        'separate-energy-balance': (g_separate(['l'] if q else kinds), dict(max_paths=400000, qtimeout_ms=20000)),
        'H-S-setters': (g_setters(kinds), dict(qtimeout_ms=20000, stubs_required=('solve_T',))),
    }
    # the receiver is itself one of the inlets: s.mix_from([s, other]) (first example of the docstring, and `s += other`)
    g['mix-into-one-of-the-inlets'] = (g_mix(['l', 'g'], 1 if q else 2, self_mix=True), dict(max_paths=1000000, qtimeout_ms=20000))
    if not q:
        g['mix-with-multistream-inlets'] = (g_mix(['ms:lg', 'l'], 2), dict(max_paths=1000000, qtimeout_ms=20000))
    return g
