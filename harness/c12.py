"""C12 — changing how a stream represents phases never changes what it contains."""
import thermosteam as tmo

from symx import core
from . import common as C
from . import streams as S

ID = 'C12'
REAL_REPLAY = False
STUBS = []
ASSUMPTIONS = ['flows symbolic > 0 over an explicit presence pattern; T, P symbolic',
               'target phase sets contain every non-empty phase up to case (property quantifier)',
               'vle / lle / sle accessors are only asked for the solver object (no equilibrium is run)']
OUTSIDE = ['sequences longer than the stated depth', 'more than 2 chemicals']
BOUNDS = {'quick': dict(depth=2, chemicals=2, phases='subsets of s l g S L', views='view / conversion / view+write scenario'),
          'thorough': dict(depth=2, chemicals=2, starts='6 start representations', views='as quick')}
N = 2
ALL = 'slgSL'
_fx = {}


def setup(mode):
    sym = C.begin_setup(mode)
    if not _fx:
        _fx['th'] = S.packages()['A2']
    if sym:
        C.patch(S.SYM_MODULES)
        C.setg(C.mod('thermosteam.base.sparse').SparseVector, 'dtype', core.symfloat)


def actual(s):
    """{phase: [flows]} of the real object"""
    d = s.imol.data
    if hasattr(d, 'rows'):
        return {ph: [r.dct.get(i, 0.0) for i in range(N)] for ph, r in zip(s.imol._phases, d.rows)}
    return {s.phase: [d.dct.get(i, 0.0) for i in range(N)]}


def nonempty(model):
    return [p for p, v in model.items() if any(not S.is_zero(x) for x in v)]


def remap(model, target):
    """expected contents after conversion to `target` phases (case rule)"""
    out = {p: [0.0] * N for p in target}
    for p, v in model.items():
        if all(S.is_zero(x) for x in v):
            continue
        q = p if p in target else p.swapcase()
        if q not in target:
            raise core.PathAbort('target lacks a non-empty phase (outside quantifier)')
        out[q] = [a + b for a, b in zip(out[q], v)]
    return out


def same_contents(E, s, model):
    act = actual(s)
    conds = []
    for p, v in model.items():
        if p not in act:
            if any(not S.is_zero(x) for x in v):
                return False
            continue
        conds.extend(E.eq(a, b) for a, b in zip(act[p], v))
    for p, v in act.items():
        if p not in model:
            conds.extend(E.eq(a, 0.0) for a in v)
    return E.all(conds)


def check(E, s, model, T, P, sig):
    E.prove('each-phase-keeps-its-material', same_contents(E, s, model), sig=sig)
    tot_m = [sum(v[i] for v in model.values()) for i in range(N)]
    E.prove('per-chemical-totals-unchanged', E.all([E.eq(a, b) for a, b in zip(S.totals(s), tot_m)]), sig=sig)
    E.prove('T-and-P-unchanged', E.all([E.eq(s.T, T), E.eq(s.P, P)]), sig=sig)
    S.check_invariant(E, s, 'data', sig=sig)


TARGETS = ['lg', 'gl', 'ls', 'lL', 'slg', 'Lg', 'sL', 'slgL', 'Sl', 'gS']


def g_sequences(depth, starts):
    def run(E):
        th = _fx['th']
        start = E.pick(starts, 'start')
        if len(start) == 1:
            s, fl = S.mk_stream(E, 'f', th, start)
            model = {start: fl}
        else:
            s, flm = S.mk_multistream(E, 'f', th, phases=start)
            model = dict(flm)
        T = E.real('T', lo=200, hi=600, nice=(280, 400))
        P = E.real('P', lo=1e3, hi=1e7, nice=(5e4, 5e5))
        s._thermal_condition._T = T
        s._thermal_condition._P = P
        log = [f'start={start}']
        saved = None
        for k in range(depth):
            multi = isinstance(s, tmo.MultiStream)
            ops = ['phases:=', 'solver-object', 'save', 'restore'] + (['phase:=', 'reduce_phases', 'as_stream', 'view-write', 'T:='] if multi else ['T:='])
            op = E.pick(ops, f'op{k}')
            if op == 'phases:=':
                tgt = E.pick(TARGETS, f'target{k}')
                expected = remap(model, tgt)
                s.phases = tgt
                model = expected
                log.append(f'phases:={tgt}')
            elif op == 'phase:=':
                ne = nonempty(model)
                classes = {p.lower() if p != 'g' else 'g' for p in ne}
                if len(ne) > 1 and len(classes) > 1:
                    raise core.PathAbort('several phases non-empty: cannot collapse to one')
                tgt = E.pick(ALL, f'target{k}')
                if ne and not all(p == tgt or p.swapcase() == tgt for p in ne):
                    raise core.PathAbort('target phase differs from the non-empty phase')
                expected = remap(model, tgt)
                s.phase = tgt
                model = expected
                log.append(f'phase:={tgt}')
            elif op == 'reduce_phases':
                ne = nonempty(model)
                s.reduce_phases()
                # collapse to the phases actually present: whatever representation results, contents are those of `model`
                after = s.phases if isinstance(s, tmo.MultiStream) else (s.phase,)
                model = remap(model, ''.join(after))
                log.append('reduce_phases')
            elif op == 'as_stream':
                ne = nonempty(model)
                if len(ne) > 1:
                    try:
                        s.as_stream()
                    except RuntimeError:
                        log.append('as_stream(rejected)')
                        check(E, s, model, T, P, ' ; '.join(log))
                        continue
                    # allowed only if the non-empty phases are one phase up to case
                    if len({p.lower() for p in ne}) > 1:
                        E.prove('as_stream-rejects-several-phases', False, sig=' ; '.join(log))
                        return
                else:
                    s.as_stream()
                model = remap(model, s.phase)
                log.append('as_stream')
            elif op == 'solver-object':
                which = E.pick(['vle', 'lle', 'sle'], f'which{k}')
                need = {'vle': 'lg', 'lle': 'lL', 'sle': 'sl'}[which]
                # the accessor may only be asked when its phase set can hold the material (quantifier)
                remap(model, need if not multi else ''.join(set(s.phases) | set(need)))
                getattr(s, which)
                after = s.phases
                E.prove('solver-accessor-provides-its-phases', all(p in after for p in need), sig=' ; '.join(log + [which]))
                model = remap(model, ''.join(after))
                log.append(which)
            elif op == 'view-write':
                ph = E.pick(list(s.phases), f'ph{k}')
                v = s[ph]
                i = E.choice(N, f'i{k}')
                w = E.real(f'w{k}', nice=(0.5, 40))
                E.assume(w > 0)
                how = E.pick(['via-view', 'via-stream'], f'how{k}')
                if how == 'via-view':
                    v.imol.data[i] = w
                else:
                    s.imol[ph, th.chemicals.IDs[i]] = w
                model[ph] = list(model[ph])
                model[ph][i] = w
                log.append(f'write-{how}-{ph}')
                seen_view = [v.imol.data.dct.get(j, 0.0) for j in range(N)]
                E.prove('phase-view-is-live', E.all([E.eq(a, b) for a, b in zip(seen_view, model[ph])]), sig=' ; '.join(log))
                E.prove('phase-view-shares-T-and-P', E.all([E.eq(v.T, s.T), E.eq(v.P, s.P)]), sig=' ; '.join(log))
            elif op == 'T:=':
                T = E.real(f'T{k}', lo=200, hi=600, nice=(280, 400))
                s.T = T
                log.append('T:=')
                if isinstance(s, tmo.MultiStream):
                    for ph in s.phases:
                        E.prove('phase-view-shares-T-and-P', E.eq(s[ph].T, T), sig=' ; '.join(log))
            elif op == 'save':
                saved = (s.get_data(), {p: list(v) for p, v in model.items()}, T, P,
                         s.phases if isinstance(s, tmo.MultiStream) else (s.phase,))
                log.append('save')
                continue
            else:
                if saved is None:
                    raise core.PathAbort('nothing saved')
                data, m0, T0, P0, ph0 = saved
                s.set_data(data)
                model, T, P = {p: list(v) for p, v in m0.items()}, T0, P0
                log.append('restore')
                now = s.phases if isinstance(s, tmo.MultiStream) else (s.phase,)
                E.prove('restore-reproduces-phases', set(now) == set(ph0), sig=' ; '.join(log))
            check(E, s, model, T, P, ' ; '.join(log))
    return run


def g_views_across_conversions():
    """a phase view is requested, the phase set is then changed, and the view requested AFTER
    the change must be live (both directions) and share T and P"""
    def run(E):
        th = _fx['th']
        start = E.pick(['lg', 'Ll', 'ls'], 'start')
        s, flm = S.mk_multistream(E, 'f', th, phases=start, presence=[1, 1])
        model = dict(flm)
        T = E.real('T', lo=200, hi=600, nice=(280, 400))
        s._thermal_condition._T = T
        touch = E.pick(list(s.phases), 'view-requested-before')
        s[touch]
        conv = E.pick(['phases:=slg', 'phases:=slgL', 'vle', 'lle', 'sle', 'T:=', 'none', 'collapse+expand'], 'conversion')
        if conv == 'collapse+expand':
            # the stream is collapsed to ONE phase (it becomes a Stream) and made multi-phase again: views taken in
            # its earlier multi-phase life must not survive
            one = E.pick(list(s.phases), 'collapsed-to')
            how = E.pick(['phase:=', 'phases:=', 'as_stream'], 'collapsed-by')
            tot = [sum(model[p][i] for p in model) for i in range(N)]
            if how == 'phase:=':
                s.phase = one
            elif how == 'phases:=':
                s.phases = (one,)
            else:
                for p in s.phases:
                    if p != one:
                        s.imol[p] = 0.0
                tot = list(model[one])
                s.as_stream()
                one = {'L': 'l', 'S': 's'}.get(one, one)      # MultiStream.phase names a liquid 'l' and a solid 's'
            if isinstance(s, tmo.MultiStream):
                raise core.PathAbort('did not collapse')
            back = E.pick(['phases:=', 'vle', 'sle'], 'expanded-by')
            if back == 'phases:=':
                s.phases = start
                q = one
            else:
                # Stream.vle: a solid becomes liquid, then phases ('g', 'l'); Stream.sle: anything but l/s/L/S becomes
                # liquid, then phases ('s', 'l'); 'L' folds into 'l' by the case rule
                q = {'vle': {'s': 'l', 'L': 'l', 'l': 'l', 'g': 'g'}, 'sle': {'g': 'l', 'L': 'l', 'l': 'l', 's': 's'}}[back][one]
                getattr(s, back)
            model = {p: (tot if p == q else [0.0] * N) for p in s.phases}
            if q not in model:
                raise core.PathAbort('phase not in target')
            conv = f'collapse to {one} by {how} ; expand by {back}'
        elif conv.startswith('phases:='):
            tgt = conv.split('=')[1]
            model = remap(model, tgt)
            s.phases = tgt
        elif conv in ('vle', 'lle', 'sle'):
            need = {'vle': 'lg', 'lle': 'lL', 'sle': 'sl'}[conv]
            model = remap(model, ''.join(set(s.phases) | set(need)))
            getattr(s, conv)
        elif conv == 'T:=':
            T = E.real('T2', lo=200, hi=600, nice=(280, 400))
            s.T = T
        ph = E.pick(list(s.phases), 'view-after')
        v = s[ph]
        sig = f'start={start} ; view {touch} ; {conv} ; view {ph}'
        E.prove('phase-view-shares-T-and-P', E.all([E.eq(v.T, T), v._thermal_condition is s._thermal_condition]), sig=sig)
        E.prove('phase-view-shows-stream-contents', E.all([E.eq(v.imol.data.dct.get(i, 0.0), model[ph][i]) for i in range(N)]), sig=sig)
        w = E.real('w', nice=(0.5, 40))
        E.assume(w > 0)
        i = E.choice(N, 'i')
        if E.choice(2, 'write-through-view'):
            v.imol.data[i] = w
            seen = s.imol.data.rows[s.imol._phases.index(ph)].dct.get(i, 0.0)
            E.prove('write-through-view-visible-in-stream', E.eq(seen, w), sig=sig)
        else:
            s.imol[ph, th.chemicals.IDs[i]] = w
            E.prove('write-through-stream-visible-in-view', E.eq(v.imol.data.dct.get(i, 0.0), w), sig=sig)
    return run


def groups(tier):
    q = tier == 'quick'
    return {
        'conversions': (g_sequences(2, ['l', 'g', 'S', 'lg', 'Ll', 'slg'] if not q else ['l', 'S', 'lg', 'Ll']),
                        dict(max_paths=4000000)),
        'views-across-conversions': (g_views_across_conversions(), {}),
    }
