"""C07 — pure-component and mixture enthalpy/entropy are thermodynamically consistent.

The real Chemical._init_energies, the functors of free_energy.py, the PhaseHandle dispatch,
the ideal mixture models and Mixture.H/S/xH/xS are executed with symbolic Tm, Tb, Hfus, S0,
T, P and flows.  Heat capacity is an arbitrary function: its integrals are modelled as
F_phi(b) - F_phi(a) (and G_phi for Cn/T) with F, G uninterpreted, Hvap and ln are
uninterpreted (ln 1 = 0 assumed)."""
import math

import thermosteam as tmo

from symx import core
from . import common as C

ID = 'C07'
REAL_REPLAY = False
STUBS = ['Cn model: T_dependent_property_integral(a,b) = F(b)-F(a), ..._over_T = G(b)-G(a) with F, G uninterpreted per phase',
         'Hvap(T): uninterpreted', 'math.log: uninterpreted with ln(1) = 0 (real math.log in replays)']
ASSUMPTIONS = ['0 < Tm < Tb, Hfus > 0, Hvap(Tb) != 0, T, P > 0', 'IG equation of state (no departure terms)',
               'derivative clauses are stated in integral form: H(T2)-H(T1) = int Cn, S(T2)-S(T1) = int Cn/T']
OUTSIDE = ['the database chemicals\' actual Cn/Hvap correlations (identities are proved for arbitrary functions)',
           'EOS excess (departure) terms', 'IEEE rounding']
BOUNDS = {'quick': dict(reference_phases='s l g', locked_phases='s l g', mixture_components=3),
          'thorough': dict(reference_phases='s l g', locked_phases='s l g', mixture_components=3)}
R_GAS = tmo.constants.R


def setup(mode):
    sym = C.begin_setup(mode)
    if sym:
        C.patch(['thermosteam.free_energy', 'thermosteam.mixture.ideal_mixture_model', 'thermosteam.mixture.mixture',
                 'thermosteam.base.sparse', 'thermosteam._chemical'], np_shim=True)
        C.setg(C.mod('thermosteam.base.sparse').SparseVector, 'dtype', core.symfloat)


def ln(E, x):
    if E.concrete:
        return math.log(x)
    return E.uf('ln', x)


class CnModel:
    def __init__(self, E, ph):
        self.E, self.ph = E, ph

    def __bool__(self):
        return True

    def __call__(self, T, P=None):
        return self.E.uf('Cn_' + self.ph, T)

    def T_dependent_property_integral(self, a, b):
        return self.E.uf('F_' + self.ph, b) - self.E.uf('F_' + self.ph, a)

    def T_dependent_property_integral_over_T(self, a, b):
        return self.E.uf('G_' + self.ph, b) - self.E.uf('G_' + self.ph, a)


class FakeChem:
    P_ref = 101325.
    T_ref = 298.15
    H_ref = 0.
    _Tc = None
    _locked_state = None


def _build(E, ref, locked=None):
    from thermosteam.base.phase_handle import PhaseTHandle
    from thermo.eos import IG
    ch = C.mod('thermosteam._chemical')
    c = FakeChem()
    c._locked_state = locked
    Tm = E.real('Tm', lo=50, nice=(150, 280))
    Tb = E.real('Tb', lo=50, nice=(300, 450))
    Hfus = E.real('Hfus', nice=(1000, 9000))
    S0 = E.real('S0', nice=(10, 200))
    E.assume(Tb > Tm)
    E.assume(Hfus > 0)
    Sfus = Hfus / Tm
    Hvap = lambda T: E.uf('Hvap', T)      # noqa: E731
    hv = Hvap(Tb)
    E.assume(hv > 0, 'Hvap(Tb) > 0')
    if not E.concrete:
        E.assume(E.eq(E.uf('ln', 1.0), 0.0), 'ln(1) = 0')
    if locked:
        Cn = CnModel(E, locked)
    else:
        Cn = PhaseTHandle('Cn', CnModel(E, 's'), CnModel(E, 'l'), CnModel(E, 'g'))
    ch.Chemical._init_energies(c, Cn, Hvap, None, Hfus, Sfus, Tm, Tb, IG(T=298.15, P=101325.), ref, S0)
    return c, dict(Tm=Tm, Tb=Tb, Hfus=Hfus, S0=S0, Hvap_Tb=hv)


def g_pure():
    def run(E):
        ref = E.pick('slg', 'reference-phase')
        c, d = _build(E, ref)
        H, S = c._H, c._S
        Tm, Tb, Hfus, S0, hv = d['Tm'], d['Tb'], d['Hfus'], d['S0'], d['Hvap_Tb']
        T = E.real('T', lo=1, nice=(200, 500))
        T2 = E.real('T2', lo=1, nice=(200, 500))
        P = E.real('P', lo=1, nice=(1e4, 1e6))
        P2 = E.real('P2', lo=1, nice=(1e4, 1e6))
        Tr, Pr = c.T_ref, c.P_ref
        sig = f'ref={ref}'
        E.observe('H_ref', H(ref, Tr, Pr))
        E.observe('S_ref', S(ref, Tr, Pr))
        for ph in 'slg':
            E.observe(f'H_{ph}', H(ph, T, P))
        E.prove('H-is-zero-at-reference-state', E.eq(H(ref, Tr, Pr), c.H_ref), sig=sig)
        E.prove('S-is-S0-at-reference-state', E.eq(S(ref, Tr, Pr), S0), sig=sig)
        F = lambda ph, x: E.uf('F_' + ph, x)      # noqa: E731
        G = lambda ph, x: E.uf('G_' + ph, x)      # noqa: E731
        for ph in 'slg':
            E.prove('dH/dT-is-Cn (integral form)', E.eq(H(ph, T2, P) - H(ph, T, P), F(ph, T2) - F(ph, T)), sig=f'{sig}/{ph}')
            E.prove('dS/dT-is-Cn/T (integral form)', E.eq(S(ph, T2, P) - S(ph, T, P), G(ph, T2) - G(ph, T)), sig=f'{sig}/{ph}')
            E.prove('H-independent-of-P', E.eq(H(ph, T, P2), H(ph, T, P)), sig=f'{sig}/{ph}')
        E.prove('gas-entropy-falls-by-R-ln(P2/P1)',
                E.eq(S('g', T, P2) - S('g', T, P), -R_GAS * (ln(E, P2 / Pr) - ln(E, P / Pr))), sig=sig)
        E.prove('condensed-entropy-independent-of-P', E.all([E.eq(S(ph, T, P2), S(ph, T, P)) for ph in 'sl']), sig=sig)
        E.prove('H-jump-at-Tb-is-Hvap', E.eq(H('g', Tb, P) - H('l', Tb, P), hv), sig=sig)
        E.prove('H-jump-at-Tm-is-Hfus', E.eq(H('l', Tm, P) - H('s', Tm, P), Hfus), sig=sig)
        E.prove('S-jump-at-Tb-is-Hvap/Tb (at P_ref)', E.eq(S('g', Tb, Pr) - S('l', Tb, Pr), hv / Tb), sig=sig)
        E.prove('S-jump-at-Tm-is-Hfus/Tm', E.eq(S('l', Tm, P) - S('s', Tm, P), Hfus / Tm), sig=sig)
    return run


def g_locked():
    def run(E):
        locked = E.pick('slg', 'locked-phase')
        c, d = _build(E, locked, locked=locked)
        H, S = c._H, c._S
        T = E.real('T', lo=1, nice=(200, 500))
        T2 = E.real('T2', lo=1, nice=(200, 500))
        P = E.real('P', lo=1, nice=(1e4, 1e6))
        P2 = E.real('P2', lo=1, nice=(1e4, 1e6))
        Tr, Pr = c.T_ref, c.P_ref
        sig = f'locked={locked}'
        E.observe('H', H(T, P))
        E.prove('H-is-zero-at-reference-state', E.eq(H(Tr, Pr), c.H_ref), sig=sig)
        E.prove('S-is-S0-at-reference-state', E.eq(S(Tr, Pr), d['S0']), sig=sig)
        E.prove('dH/dT-is-Cn (integral form)', E.eq(H(T2, P) - H(T, P), E.uf('F_' + locked, T2) - E.uf('F_' + locked, T)), sig=sig)
        E.prove('dS/dT-is-Cn/T (integral form)', E.eq(S(T2, P) - S(T, P), E.uf('G_' + locked, T2) - E.uf('G_' + locked, T)), sig=sig)
        if locked == 'g':
            E.prove('gas-entropy-falls-by-R-ln(P2/P1)', E.eq(S(T, P2) - S(T, P), -R_GAS * (ln(E, P2 / Pr) - ln(E, P / Pr))), sig=sig)
        else:
            E.prove('condensed-entropy-independent-of-P', E.eq(S(T, P2), S(T, P)), sig=sig)
    return run


def _mixture(E, n, include_excess):
    mm = C.mod('thermosteam.mixture.ideal_mixture_model')
    mx = C.mod('thermosteam.mixture.mixture')
    h = [(lambda i: (lambda phase, T, P: E.uf(f'h{i}_{phase}', T, P)))(i) for i in range(n)]
    s = [(lambda i: (lambda phase, T, P: E.uf(f's{i}_{phase}', T, P)))(i) for i in range(n)]
    cn = [(lambda i: (lambda phase, T: E.uf(f'cn{i}_{phase}', T)))(i) for i in range(n)]
    he = [(lambda i: (lambda phase, T, P: E.uf(f'hE{i}_{phase}', T, P)))(i) for i in range(n)]
    se = [(lambda i: (lambda phase, T, P: E.uf(f'sE{i}_{phase}', T, P)))(i) for i in range(n)]
    mix = mx.IdealMixture(
        Cn=mm.IdealTMixtureModel(cn, 'Cn'), H=mm.IdealTPMixtureModel(h, 'H'), S=mm.IdealEntropyModel(s, 'S'),
        H_excess=mm.IdealTPMixtureModel(he, 'H_excess'), S_excess=mm.IdealTPMixtureModel(se, 'S_excess'),
        mu=None, V=None, kappa=None, Hvap=None, sigma=None, epsilon=None, MWs=None,
        include_excess_energies=include_excess)
    return mix


def g_mixture(n=3):
    def run(E):
        sp = C.mod('thermosteam.base.sparse')
        exc = bool(E.choice(2, 'include_excess_energies'))
        phase = E.pick('lg', 'phase')
        mix = _mixture(E, n, exc)
        if not E.concrete:
            E.assume(E.eq(E.uf('ln', 1.0), 0.0), 'ln(1) = 0')
        pres = [E.choice(2, f'n[{i}]?') for i in range(n)]
        ns = []
        for i in range(n):
            if pres[i]:
                x = E.real(f'n{i}', nice=(0.5, 20))
                E.assume(x > 0)
                ns.append(x)
            else:
                ns.append(0.0)
        T = E.real('T', lo=1, nice=(250, 450))
        P = E.real('P', lo=1, nice=(1e4, 1e6))
        k = E.real('k', nice=(0.5, 4))
        E.assume(k > 0)
        mol = sp.SparseVector.from_dict({i: x for i, x in enumerate(ns) if pres[i]}, n)
        molk = sp.SparseVector.from_dict({i: k * x for i, x in enumerate(ns) if pres[i]}, n)
        sig = f'phase={phase}/excess={exc}'
        tot = sum(ns)
        U = lambda nm, i: E.uf(f'{nm}{i}_{phase}', T, P)      # noqa: E731
        H = mix.H(phase, mol, T, P)
        S = mix.S(phase, mol, T, P)
        Cn = mix.Cn(phase, mol, T)
        E.observe('H', H)
        E.observe('Cn', Cn)
        expH = sum(ns[i] * U('h', i) for i in range(n) if pres[i]) + (sum(ns[i] * U('hE', i) for i in range(n) if pres[i]) if exc else 0.0)
        E.prove('mixture-H-is-mole-weighted-sum (excess iff requested)', E.eq(H, expH), sig=sig)
        E.prove('mixture-Cn-is-mole-weighted-sum', E.eq(Cn, sum(ns[i] * E.uf(f'cn{i}_{phase}', T) for i in range(n) if pres[i])), sig=sig)
        E.prove('H-is-extensive', E.eq(mix.H(phase, molk, T, P), k * H), sig=sig)
        E.prove('Cn-is-extensive', E.eq(mix.Cn(phase, molk, T), k * Cn), sig=sig)
        if any(pres):
            ideal = sum(ns[i] * U('s', i) for i in range(n) if pres[i])
            mixing = -R_GAS * sum(ns[i] * ln(E, ns[i] / tot) for i in range(n) if pres[i])
            excess = sum(ns[i] * U('sE', i) for i in range(n) if pres[i]) if exc else 0.0
            E.prove('mixture-S-exceeds-mole-weighted-sum-by-ideal-mixing-term', E.eq(S, ideal + mixing + excess),
                    sig=sig + f'/components={sum(pres)}')
        else:
            E.prove('empty-mixture-S-is-zero', E.eq(S, 0.0), sig=sig)
        # multi-phase sums
        mol2 = sp.SparseVector.from_dict({i: x for i, x in enumerate(ns) if pres[i]}, n)
        other = 'g' if phase == 'l' else 'l'
        xH = mix.xH([(phase, mol), (other, mol2)], T, P)
        E.prove('xH-is-sum-over-phases', E.eq(xH, H + mix.H(other, mol2, T, P)), sig=sig)
    return run


_real = {}


def real_chemical(E):
    """a real Chemical object (blank) whose Cn / Hvap models are the stubs; all constants go through
    the public setters, so the functors are (re)built by the library itself"""
    from thermosteam.base.phase_handle import PhaseTHandle
    from thermo.eos import IG
    if 'c' not in _real:
        c = tmo.Chemical.blank('StubChem', phase_ref='l')
        _real['c'] = c
    c = _real['c']
    setf = object.__setattr__
    setf(c, '_Cn', PhaseTHandle('Cn', CnModel(E, 's'), CnModel(E, 'l'), CnModel(E, 'g')))
    setf(c, '_Hvap', lambda T: E.uf('Hvap', T))
    setf(c, '_eos', IG(T=298.15, P=101325.))
    setf(c, '_locked_state', None)
    for k in ('_Tm', '_Tb', '_Hfus', '_Sfus', '_S0', '_H', '_S', '_H_excess', '_S_excess'):
        setf(c, k, None)        # nothing from an earlier path
    return c


def g_setter_history():
    """constants assigned through the public setters, then ONE of them re-assigned: the identities
    must hold for the values the chemical now reports"""
    def run(E):
        ref = E.pick('slg', 'reference-phase')
        c = real_chemical(E)
        if not E.concrete:
            E.assume(E.eq(E.uf('ln', 1.0), 0.0), 'ln(1) = 0')
        vals = {}

        def draw(tag):
            Tm = E.real(f'Tm{tag}', lo=50, nice=(150, 280))
            Tb = E.real(f'Tb{tag}', lo=50, nice=(300, 450))
            Hfus = E.real(f'Hfus{tag}', nice=(1000, 9000))
            S0 = E.real(f'S0{tag}', nice=(10, 200))
            E.assume(Tb > Tm)
            E.assume(Hfus > 0)
            E.assume(E.uf('Hvap', Tb) > 0)
            return dict(Tm=Tm, Tb=Tb, Hfus=Hfus, S0=S0)
        v0 = draw('a')
        c.phase_ref = ref
        c.Tm = v0['Tm']
        c.Tb = v0['Tb']
        c.Hfus = v0['Hfus']
        c.Sfus = v0['Hfus'] / v0['Tm']
        c.S0 = v0['S0']
        vals.update(v0)
        change = E.pick(['none', 'Tb', 'Tm', 'Hfus', 'S0', 'phase_ref'], 're-assigned')
        v1 = draw('b')
        if change == 'Tb':
            E.assume(v1['Tb'] > vals['Tm'])
            c.Tb = vals['Tb'] = v1['Tb']
        elif change == 'Tm':
            E.assume(v1['Tm'] < vals['Tb'])
            c.Tm = vals['Tm'] = v1['Tm']
            c.Sfus = vals['Hfus'] / vals['Tm']
        elif change == 'Hfus':
            c.Hfus = vals['Hfus'] = v1['Hfus']
            c.Sfus = vals['Hfus'] / vals['Tm']
        elif change == 'S0':
            c.S0 = vals['S0'] = v1['S0']
        elif change == 'phase_ref':
            ref = E.pick([p for p in 'slg' if p != ref], 'new-reference-phase')
            c.phase_ref = ref
        H, S = c.H, c.S
        Tm, Tb, Hfus, S0 = vals['Tm'], vals['Tb'], vals['Hfus'], vals['S0']
        hv = E.uf('Hvap', Tb)
        T = E.real('T', lo=1, nice=(200, 500))
        T2 = E.real('T2', lo=1, nice=(200, 500))
        P = E.real('P', lo=1, nice=(1e4, 1e6))
        Tr, Pr = c.T_ref, c.P_ref
        sig = f'ref={ref}/re-assigned={change}'
        E.observe('H_l', H('l', T, P))
        E.prove('H-is-zero-at-reference-state', E.eq(H(ref, Tr, Pr), c.H_ref), sig=sig)
        E.prove('S-is-S0-at-reference-state', E.eq(S(ref, Tr, Pr), S0), sig=sig)
        for ph in 'slg':
            E.prove('dH/dT-is-Cn (integral form)', E.eq(H(ph, T2, P) - H(ph, T, P), E.uf('F_' + ph, T2) - E.uf('F_' + ph, T)), sig=f'{sig}/{ph}')
            E.prove('dS/dT-is-Cn/T (integral form)', E.eq(S(ph, T2, P) - S(ph, T, P), E.uf('G_' + ph, T2) - E.uf('G_' + ph, T)), sig=f'{sig}/{ph}')
        E.prove('H-jump-at-Tb-is-Hvap', E.eq(H('g', Tb, P) - H('l', Tb, P), hv), sig=sig)
        E.prove('H-jump-at-Tm-is-Hfus', E.eq(H('l', Tm, P) - H('s', Tm, P), Hfus), sig=sig)
        E.prove('S-jump-at-Tb-is-Hvap/Tb (at P_ref)', E.eq(S('g', Tb, Pr) - S('l', Tb, Pr), hv / Tb), sig=sig)
        E.prove('S-jump-at-Tm-is-Hfus/Tm', E.eq(S('l', Tm, P) - S('s', Tm, P), Hfus / Tm), sig=sig)
    return run


def groups(tier):
    return {
        'pure-component': (g_pure(), dict(qtimeout_ms=20000)),
        'phase-locked': (g_locked(), {}),
        'ideal-mixture': (g_mixture(3), dict(qtimeout_ms=20000)),
        'constants-through-setters': (g_setter_history(), dict(qtimeout_ms=20000)),
    }
