"""C05 — reactions conserve mass and atoms and convert exactly X of the reactant."""
import numpy as np
import thermosteam as tmo

from symx import core
from . import common as C
from . import rxn as R
from . import streams as S

ID = 'C05'
REAL_REPLAY = False
STUBS = []
ASSUMPTIONS = [
    'stoichiometries are symbolic reals constrained by formula_array @ nu = 0 (reactant coefficient -1); conversions in [0,1]; feeds >= 0',
    'molecular weights are exact rationals derived from the formula (atomic weights H 1.008, C 12.011, O 15.999) in the symbolic run',
    "the library zeroes negative flows whose sum is above -1e-12; all identities are therefore proved within an absolute tolerance of 1e-9",
]
OUTSIDE = ['the string tokenizer on arbitrary text', 'more than 3 reactions per set', 'IEEE rounding']
BOUNDS = {
    'quick': dict(chemicals=5, elements=3, reactions_per_set='<=2', feeds='presence pattern over 5 chemicals'),
    'thorough': dict(chemicals=5, elements=3, reactions_per_set='<=3 + ReactionSystem', feeds='presence pattern over 5 chemicals'),
}
TOL = 1e-9


def setup(mode):
    sym = C.begin_setup(mode)
    R.fixture(sym)
    if sym:
        C.patch(R.SYM_MODULES)
        C.setg(C.mod('thermosteam.base.sparse').SparseVector, 'dtype', core.symfloat)


def near0(E, x, tol=TOL):
    if isinstance(x, core.SymNum):
        return (x <= tol) & (x >= -tol)
    return abs(x) <= tol


def near(E, a, b, tol=TOL):
    return near0(E, a - b, tol)


def participants_choice(E, reactant, name='part'):
    others = [i for i in range(len(R.IDS)) if i != reactant]
    return [i for i in others if E.choice(2, f'{name}[{R.IDS[i]}]?')]


def feed_flows(E, name='f', n=5, presence=None):
    return S.sym_flows(E, name, n, presence)


def conservation(E, fx, before, after, sig, mw):
    n = len(R.IDS)
    atoms = []
    for row in fx['FA']:
        atoms.append(near0(E, sum(row[i] * (after[i] - before[i]) for i in range(n) if row[i])))
    E.prove('atoms-conserved', E.all(atoms), sig=sig)
    E.prove('mass-conserved', near0(E, sum(mw[i] * (after[i] - before[i]) for i in range(n)), 1e-7), sig=sig)
    E.prove('no-negative-flow', E.all([E.ge(a, 0.0) if not isinstance(a, core.SymNum) else a >= 0 for a in after]), sig=sig)


def stream_flows(s, order):
    """flows of stream s in fixture (IDS) order"""
    d = s.imol.data.dct
    ids = s.chemicals.IDs
    pos = {cid: k for k, cid in enumerate(ids)}
    return [d.get(pos[c], 0.0) for c in order]


def g_single(presence_mode):
    def run(E):
        fx = R.fixture(not E.concrete)
        basis = E.pick(['mol', 'wt'], 'basis')
        pkg = E.pick(['same', 'other-order'], 'stream-pkg')
        reactant = E.pick([0, 1, 3], 'reactant')
        parts = participants_choice(E, reactant)
        r, nu, X = R.mk_reaction(E, fx, 'a', reactant, parts, basis)
        th = fx['thermo'] if pkg == 'same' else fx['thermoB']
        if presence_mode == 'all':
            pres = None
        else:
            pres = [1] * 5
            pres[reactant] = E.choice(2, 'reactant-present')
        feed = feed_flows(E, 'f', 5, pres)           # in IDS order
        s = tmo.Stream(None, thermo=th)
        ids = list(th.chemicals.IDs)
        S.inject(s.imol.data, [feed[R.IDS.index(c)] for c in ids])
        sig = f'{basis}/{pkg}'
        chems_before = s.chemicals
        if E.choice(2, 'mass-view-created-before'):
            s.imass
        try:
            r(s)
        except tmo.exceptions.InfeasibleRegion:
            # legitimate only if some flow would really go negative
            would = [feed[i] + nu[i] * X * feed[reactant] for i in range(5)]
            E.prove('infeasible-only-when-negative', E.any([w < 0 for w in would if isinstance(w, core.SymNum)] +
                                                           [w < 0 for w in would if not isinstance(w, core.SymNum)]), sig=sig)
            return
        E.prove('stream-package-restored', s.chemicals is chems_before, sig=sig)
        after = stream_flows(s, R.IDS)
        for i, a in enumerate(after):
            E.observe(f'after{i}', a)
        mw = R.MW(fx, not E.concrete)
        conservation(E, fx, feed, after, sig, mw)
        conv = [near(E, after[i], feed[i] + nu[i] * X * feed[reactant]) for i in range(5)]
        E.prove('reactant-consumed-X-times-feed', conv[reactant], sig=sig)
        E.prove('stoichiometric-proportion', E.all(conv), sig=sig)
        S.check_invariant(E, s, 'stream', sig=sig)
        # the same result read through the stream's mass view (own chemical order), also after a later write
        def mass_view_ok():
            md, mm = s.imol.data.dct, s.imass.data.dct
            return E.all([near(E, (mm.get(k, 0.0) if k in md else 0.0), md.get(k, 0.0) * mw[R.IDS.index(c)], 1e-7) for k, c in enumerate(ids)])
        E.prove('mass-view-of-the-stream-shows-the-result', mass_view_ok(), sig=sig)
        w = E.real('w', nice=(0.5, 40))
        E.assume(w > 0)
        s.imol.data[E.choice(5, 'written')] = w
        E.prove('mass-view-of-the-stream-follows-a-later-write', mass_view_ok(), sig=sig)
    return run


def _mk_set(E, fx, kind, nrx, basis):
    rxns, nus, Xs, reactants = [], [], [], []
    for j in range(nrx):
        reactant = E.pick([0, 1], f'r{j}-reactant')
        shape = E.pick(['ferment', 'free2', 'free3'], f'r{j}-shape')
        if shape == 'ferment':
            parts = [1, 4] if reactant == 0 else [0, 4]
        elif shape == 'free2':
            parts = [2, 4] if reactant == 1 else [1, 2]
            parts = [2, 3, 4][:2] if reactant == 1 else [2, 4]
        else:
            parts = [2, 3, 4]
        r, nu, X = R.mk_reaction(E, fx, f'r{j}', reactant, parts, basis)
        rxns.append(r)
        nus.append(nu)
        Xs.append(X)
        reactants.append(reactant)
    if kind == 'parallel':
        return tmo.ParallelReaction(rxns), nus, Xs, reactants
    if kind == 'series':
        return tmo.SeriesReaction(rxns), nus, Xs, reactants
    raise KeyError(kind)


def _reference(kind, feed, nus, Xs, reactants):
    cur = list(feed)
    if kind == 'parallel':
        ext = [Xs[j] * feed[reactants[j]] for j in range(len(nus))]
        for j, nu in enumerate(nus):
            cur = [c + ext[j] * nu[i] for i, c in enumerate(cur)]
    else:
        for j, nu in enumerate(nus):
            e = Xs[j] * cur[reactants[j]]
            cur = [c + e * nu[i] for i, c in enumerate(cur)]
    return cur


def g_sets(nrx_choices, kinds):
    def run(E):
        fx = R.fixture(not E.concrete)
        basis = E.pick(['mol', 'wt'], 'basis')
        kind = E.pick(kinds, 'kind')
        nrx = E.pick(nrx_choices, 'n-reactions')
        if kind == 'system':
            ps, nus1, Xs1, re1 = _mk_set(E, fx, 'parallel', 2, basis)
            r3, nu3, X3 = R.mk_reaction(E, fx, 'r9', 1, [2, 3, 4], basis)
            rs = tmo.ReactionSystem(ps, r3)
            ref = lambda feed: _reference('series', _reference('parallel', feed, nus1, Xs1, re1), [nu3], [X3], [1])    # noqa: E731
        else:
            rs, nus, Xs, reactants = _mk_set(E, fx, kind, nrx, basis)
            ref = lambda feed: _reference(kind, feed, nus, Xs, reactants)    # noqa: E731
        pres = [E.choice(2, 'glucose?'), E.choice(2, 'ethanol?'), 1, 1, 1]
        feed = feed_flows(E, 'f', 5, pres)
        s = tmo.Stream(None, thermo=fx['thermo'])
        S.inject(s.imol.data, feed)
        sig = f'{kind}/{basis}/n={nrx}'
        try:
            rs(s)
        except tmo.exceptions.InfeasibleRegion:
            would = ref(feed)
            E.prove('infeasible-only-when-negative', E.any([w < 0 for w in would]), sig=sig)
            return
        after = stream_flows(s, R.IDS)
        for i, a in enumerate(after):
            E.observe(f'after{i}', a)
        mw = R.MW(fx, not E.concrete)
        conservation(E, fx, feed, after, sig, mw)
        exp = ref(feed)
        E.prove('set-semantics (parallel: feed composition; series: running composition)',
                E.all([near(E, a, e) for a, e in zip(after, exp)]), sig=sig)
        S.check_invariant(E, s, 'stream', sig=sig)
    return run


def g_arrays():
    """bare flow arrays instead of streams (mol basis; wt arrays are mass flows)"""
    def run(E):
        fx = R.fixture(not E.concrete)
        sp = C.mod('thermosteam.base.sparse')
        basis = E.pick(['mol', 'wt'], 'basis')
        form = E.pick(['SparseVector', 'ndarray', 'imol.data'], 'material')
        reactant = E.pick([0, 1], 'reactant')
        parts = [1, 4] if reactant == 0 else [2, 3, 4]
        r, nu, X = R.mk_reaction(E, fx, 'a', reactant, parts, basis)
        feed = feed_flows(E, 'f', 5, [E.choice(2, 'glucose?'), E.choice(2, 'ethanol?'), 1, E.choice(2, 'o2?'), 1])
        mw = R.MW(fx, not E.concrete)
        # arrays handed to a wt-basis reaction are mass flows
        unit = (lambda i, x: x * mw[i]) if basis == 'wt' else (lambda i, x: x)
        vals = [unit(i, x) for i, x in enumerate(feed)]
        if form == 'SparseVector':
            m = sp.SparseVector.from_size(5)
            S.inject(m, vals)
        elif form == 'ndarray':
            m = C.array(E, vals)
        else:
            if basis == 'wt':
                raise core.PathAbort('imol.data is molar')
            st = tmo.Stream(None, thermo=fx['thermo'])
            S.inject(st.imol.data, vals)
            m = st.imol.data
        sig = f'{form}/{basis}'
        try:
            r(m)
        except tmo.exceptions.InfeasibleRegion:
            would = [feed[i] + nu[i] * X * feed[reactant] for i in range(5)]
            E.prove('infeasible-only-when-negative', E.any([w < 0 for w in would]), sig=sig)
            return
        got = [m.dct.get(i, 0.0) for i in range(5)] if hasattr(m, 'dct') else list(m)
        after = [(g / mw[i]) if basis == 'wt' else g for i, g in enumerate(got)]
        for i, a in enumerate(after):
            E.observe(f'after{i}', a)
        conservation(E, fx, feed, after, sig, mw)
        E.prove('stoichiometric-proportion', E.all([near(E, after[i], feed[i] + nu[i] * X * feed[reactant]) for i in range(5)]), sig=sig)
        if hasattr(m, 'dct'):
            C.check_sv_invariant(E, m, 'material', sig=sig)
    return run


def g_phases():
    """phase-tagged reaction  a A,g + ... -> ... on a MultiStream with the same phases"""
    def run(E):
        fx = R.fixture(not E.concrete)
        th = fx['thermo']
        basis = E.pick(['mol', 'wt'], 'basis')
        # Ethanol,l + nu O2,g -> nu CO2,g + nu H2O,l   (balanced symbolically)
        nu = R.balanced_stoichiometry(E, fx, 'p', 1, [2, 3, 4])
        X = E.real('pX', lo=0, hi=1, nice=(0.05, 0.95))
        tag = {1: 'l', 2: E.pick(['l', 'g'], 'water-phase'), 3: 'g', 4: 'g'}
        d = {R.IDS[i]: (tag[i], nu[i]) for i in (1, 2, 3, 4)}
        r = tmo.Reaction(d, reactant='Ethanol', X=X, chemicals=th.chemicals, basis='mol', phases='gl')
        if basis == 'wt':
            r.basis = 'wt'
        pkg = E.pick(['same', 'other-order'], 'stream-pkg')
        ths = th if pkg == 'same' else fx['thermoB']
        ms = tmo.MultiStream(None, thermo=ths, phases='gl')
        order = ms.imol._phases
        ids = list(ths.chemicals.IDs)
        feed = {}
        for ph in order:
            feed[ph] = feed_flows(E, f'f{ph}', 5, [0, 1 if ph == 'l' else E.choice(2, f'eth-{ph}?'), 1, 1, 1])      # in IDS order
            S.inject(ms.imol.data.rows[order.index(ph)], [feed[ph][R.IDS.index(c)] for c in ids])
        form = E.pick(['MultiStream', 'imol.data', 'ndarray'], 'material')
        if form != 'MultiStream' and (pkg != 'same' or basis != 'mol'):
            raise core.PathAbort('bare arrays: molar flows in the order of the reaction package')
        sig = f'{basis}/water={tag[2]}/{pkg}/{form}'
        chems_before = ms.chemicals
        arr = None
        try:
            if form == 'MultiStream':
                r(ms)
            elif form == 'imol.data':
                r(ms.imol.data)
            else:
                arr = C.array(E, [list(feed[ph]) for ph in order])
                r(arr)
        except tmo.exceptions.InfeasibleRegion:
            would = [feed[tag[i]][i] + nu[i] * X * feed['l'][1] for i in (1, 2, 3, 4)]
            E.prove('infeasible-only-when-negative', E.any([w < 0 for w in would]), sig=sig)
            return
        E.prove('stream-package-restored', ms.chemicals is chems_before and ms.imol.data.shape == (2, len(ids)), sig=sig)
        after = {ph: [ms.imol.data.rows[order.index(ph)].dct.get(ids.index(c), 0.0) for c in R.IDS] for ph in order}
        if arr is not None:
            after = {ph: list(arr[k]) for k, ph in enumerate(order)}
        tot_b = [sum(feed[ph][i] for ph in order) for i in range(5)]
        tot_a = [sum(after[ph][i] for ph in order) for i in range(5)]
        for i, a in enumerate(tot_a):
            E.observe(f'after{i}', a)
        mw = R.MW(fx, not E.concrete)
        conservation(E, fx, tot_b, tot_a, sig, mw)
        conds = []
        for ph in order:
            for i in range(5):
                exp = feed[ph][i] + (nu[i] * X * feed['l'][1] if tag.get(i) == ph else 0.0)
                conds.append(near(E, after[ph][i], exp))
        E.prove('each-species-changes-in-its-tagged-phase', E.all(conds), sig=sig)
    return run


def g_parser():
    """string and dict definitions give the stoichiometry they state (concrete grid)"""
    def run(E):
        fx = R.fixture(not E.concrete)
        th = fx['thermo']
        case = E.pick([('Glucose -> 2 Ethanol + 2 CO2', {'Glucose': -1, 'Ethanol': 2, 'CO2': 2}, 'Glucose'),
                       ('Glucose + 6 O2 -> 6 H2O + 6 CO2', {'Glucose': -1, 'O2': -6, 'H2O': 6, 'CO2': 6}, 'Glucose'),
                       ('2Ethanol + 6O2 -> 6H2O + 4CO2', {'Ethanol': -1, 'O2': -3, 'H2O': 3, 'CO2': 2}, 'Ethanol'),
                       ('0.5 Glucose -> Ethanol + CO2', {'Glucose': -1, 'Ethanol': 2, 'CO2': 2}, 'Glucose'),
                       ('Ethanol + 3e0 O2 -> 3 H2O + 2 CO2', {'Ethanol': -1, 'O2': -3, 'H2O': 3, 'CO2': 2}, 'Ethanol')], 'text')
        text, want, reactant = case
        X = E.real('X', lo=0, hi=1, nice=(0.05, 0.95))
        r = tmo.Reaction(text, reactant=reactant, X=X, chemicals=th.chemicals)
        got = {R.IDS[i]: v for i, v in r._stoichiometry.dct.items()}
        E.prove('parsed-stoichiometry', got.keys() == want.keys() and all(abs(got[k] - want[k]) < 1e-12 for k in want), sig=text)
        r2 = tmo.Reaction(dict(want), reactant=reactant, X=X, chemicals=th.chemicals)
        feed = feed_flows(E, 'f', 5, [1] * 5)
        s1 = tmo.Stream(None, thermo=th)
        s2 = tmo.Stream(None, thermo=th)
        S.inject(s1.imol.data, feed)
        S.inject(s2.imol.data, feed)
        try:
            r(s1)
            r2(s2)
        except tmo.exceptions.InfeasibleRegion:
            return
        a1, a2 = stream_flows(s1, R.IDS), stream_flows(s2, R.IDS)
        E.prove('string-and-dict-definitions-agree', E.all([near(E, x, y) for x, y in zip(a1, a2)]), sig=text)
        mw = R.MW(fx, not E.concrete)
        conservation(E, fx, feed, a1, text, mw)
    return run


def groups(tier):
    q = tier == 'quick'
    g = {
        'single-reaction-on-stream': (g_single('reactant-only' if q else 'all'), dict(max_paths=400000)),
        'reaction-sets': (g_sets([2] if q else [2, 3], ['parallel', 'series'] if q else ['parallel', 'series', 'system']),
                          dict(max_paths=400000, qtimeout_ms=20000)),
        'bare-arrays': (g_arrays(), dict(max_paths=200000)),
        'phase-tagged': (g_phases(), dict(max_paths=200000)),
        'parser-grid': (g_parser(), {}),
    }
    return g
