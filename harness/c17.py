"""C17 — reaction arithmetic agrees with applying the reactions and spares its operands."""
import thermosteam as tmo

from symx import core
from . import common as C
from . import rxn as R
from . import streams as S
from .c05 import near, near0, feed_flows

ID = 'C17'
REAL_REPLAY = False
STUBS = []
ASSUMPTIONS = [
    'stoichiometries symbolic (reactant coefficient -1, atomically balanced), conversions in (0,1], k > 0, feeds > 0',
    'a - b is only formed when X_a != X_b (the difference is normalised by X_a - X_b)',
    '"acts like" is decided on the conversion vector X*nu*feed[reactant] returned by the real _conversion for a symbolic feed',
]
OUTSIDE = ['IEEE rounding of (X_a nu_a + X_b nu_b)/(X_a + X_b)', 'reactions with different reactants (rejected by the library)']
BOUNDS = {
    'quick': dict(reactions='pairs', basis='mol, wt', shapes='2-3 symbolic coefficients per reaction'),
    'thorough': dict(reactions='pairs and triples, phase-tagged', basis='mol, wt'),
}


def setup(mode):
    sym = C.begin_setup(mode)
    R.fixture(sym)
    if sym:
        C.patch(R.SYM_MODULES)
        C.setg(C.mod('thermosteam.base.sparse').SparseVector, 'dtype', core.symfloat)


def snap(r):
    st = r._stoichiometry
    return dict(obj=st, dct=st.dct, items=dict(st.dct), X=r._X if not isinstance(r, tmo.reaction.ReactionItem) else r.X,
                ri=r._reactant_index, basis=r._basis, chemicals=r._chemicals)


def unchanged(E, r, s):
    st = r._stoichiometry
    if st is not s['obj'] or st.dct is not s['dct'] or st.dct.keys() != s['items'].keys():
        return False
    if r._reactant_index != s['ri'] or r._basis != s['basis'] or r._chemicals is not s['chemicals']:
        return False
    same_vals = all(st.dct[k] is s['items'][k] or (E.concrete and st.dct[k] == s['items'][k]) for k in st.dct)
    x = r.X
    same_x = x is s['X'] or (E.concrete and x == s['X'])
    return same_vals and same_x


def effect(E, r, feed):
    """molar conversion vector of reaction r for a molar feed, whatever r's basis"""
    sp = C.mod('thermosteam.base.sparse')
    mw = R.MW(R.fixture(not E.concrete), not E.concrete)
    wt = r._basis == 'wt'
    m = sp.SparseVector.from_size(5)
    S.inject(m, [x * mw[i] for i, x in enumerate(feed)] if wt else feed)
    d = r._conversion(m)
    out = [d.dct.get(i, 0.0) for i in range(5)]
    return [x / mw[i] for i, x in enumerate(out)] if wt else out


def xnu(r):
    st = r._stoichiometry
    return [r.X * st.dct.get(i, 0.0) for i in range(5)]


def same_vec(E, a, b):
    return E.all([near(E, x, y) for x, y in zip(a, b)])


def new_object(r, *operands):
    for o in operands:
        if r is o or r._stoichiometry is o._stoichiometry or r._stoichiometry.dct is o._stoichiometry.dct:
            return False
    return True


def _pair(E, fx, basis):
    reactant = E.pick([0, 1], 'reactant')
    pa = [1, 4] if reactant == 0 else [2, 3, 4]
    pb = [2, 3, 4] if reactant == 0 else [0, 4] if E.choice(2, 'b-shape') else [2, 3, 4]
    a, nua, Xa = R.mk_reaction(E, fx, 'a', reactant, pa, basis)
    # the second operand may be defined on the other basis (it is converted by the library)
    basis_b = basis if not E.choice(2, 'b-on-other-basis') else ('wt' if basis == 'mol' else 'mol')
    b, nub, Xb = R.mk_reaction(E, fx, 'b', reactant, pb, basis_b)
    E.assume(Xa > 0)
    E.assume(Xb > 0)
    return a, b, reactant


def g_add_sub():
    def run(E):
        fx = R.fixture(not E.concrete)
        basis = E.pick(['mol', 'wt'], 'basis')
        a, b, reactant = _pair(E, fx, basis)
        op = E.pick(['add', 'sub', 'add-then-sub', 'iadd', 'isub', 'radd0'], 'op')
        feed = feed_flows(E, 'f', 5, [1] * 5)
        sa, sb = snap(a), snap(b)
        ea, eb = effect(E, a, feed), effect(E, b, feed)
        sig = f'{op}/{basis}'
        if op == 'add':
            c = a + b
            E.prove('sum-acts-like-parallel', same_vec(E, effect(E, c, feed), [x + y for x, y in zip(ea, eb)]), sig=sig)
            if a._basis == b._basis:
                E.prove('conversion-adds', near(E, c.X, a.X + b.X), sig=sig)
            E.prove('returns-new-object', new_object(c, a, b), sig=sig)
        elif op == 'radd0':
            c = 0 + a if False else sum([a, b])      # sum() starts from 0: exercises __radd__
            E.prove('sum-acts-like-parallel', same_vec(E, effect(E, c, feed), [x + y for x, y in zip(ea, eb)]), sig=sig)
            E.prove('returns-new-object', new_object(c, a, b), sig=sig)
        elif op == 'sub':
            E.assume(E.ne(a.X, b.X) if not E.concrete else a.X != b.X, 'X_a != X_b')
            c = a - b
            E.prove('difference-acts-like-a-minus-b', same_vec(E, effect(E, c, feed), [x - y for x, y in zip(ea, eb)]), sig=sig)
            E.prove('returns-new-object', new_object(c, a, b), sig=sig)
        elif op == 'add-then-sub':
            c = (a + b) - b
            E.prove('(a+b)-b-acts-like-a', same_vec(E, effect(E, c, feed), ea), sig=sig)
            E.prove('returns-new-object', new_object(c, a, b), sig=sig)
        elif op == 'iadd':
            ref = a + b
            c = a.copy()
            sc = c
            c += b
            E.prove('in-place-returns-target', c is sc, sig=sig)
            E.prove('in-place-equals-binary', same_vec(E, xnu(c), xnu(ref)) & near(E, c.X, ref.X)
                    if not E.concrete else (same_vec(E, xnu(c), xnu(ref)) and near(E, c.X, ref.X)), sig=sig)
        else:
            E.assume(E.ne(a.X, b.X) if not E.concrete else a.X != b.X, 'X_a != X_b')
            ref = a - b
            c = a.copy()
            sc = c
            c -= b
            E.prove('in-place-returns-target', c is sc, sig=sig)
            E.prove('in-place-equals-binary', same_vec(E, xnu(c), xnu(ref)) & near(E, c.X, ref.X)
                    if not E.concrete else (same_vec(E, xnu(c), xnu(ref)) and near(E, c.X, ref.X)), sig=sig)
        for i, v in enumerate(xnu(c)):
            E.observe(f'xnu{i}', v)
        E.prove('operands-unchanged', unchanged(E, a, sa) and unchanged(E, b, sb), sig=sig)
    return run


def g_scale():
    def run(E):
        fx = R.fixture(not E.concrete)
        basis = E.pick(['mol', 'wt'], 'basis')
        reactant = E.pick([0, 1], 'reactant')
        a, nu, X = R.mk_reaction(E, fx, 'a', reactant, [1, 4] if reactant == 0 else [2, 3, 4], basis)
        E.assume(X > 0)
        k = E.real('k', lo=0, lo_open=True, nice=(0.2, 5))
        E.assume(k > 0)
        op = E.pick(['mul', 'rmul', 'truediv', 'imul', 'itruediv', 'neg', 'copy', 'rebase', 'backwards'], 'op')
        feed = feed_flows(E, 'f', 5, [1] * 5)
        sa = snap(a)
        ea = effect(E, a, feed)
        sig = f'{op}/{basis}'
        if op in ('mul', 'rmul', 'truediv'):
            c = a * k if op == 'mul' else (k * a if op == 'rmul' else a / k)
            f = k if op != 'truediv' else 1 / k
            E.prove('conversion-scaled', near(E, c.X, a.X * f), sig=sig)
            E.prove('acts-like-a-with-scaled-conversion', same_vec(E, effect(E, c, feed), [x * f for x in ea]), sig=sig)
            E.prove('returns-new-object', new_object(c, a), sig=sig)
            E.prove('operands-unchanged', unchanged(E, a, sa), sig=sig)
        elif op in ('imul', 'itruediv'):
            ref = a * k if op == 'imul' else a / k
            c = a.copy()
            sc = c
            if op == 'imul':
                c *= k
            else:
                c /= k
            E.prove('in-place-returns-target', c is sc, sig=sig)
            E.prove('in-place-equals-binary', same_vec(E, xnu(c), xnu(ref)), sig=sig)
            E.prove('operands-unchanged', unchanged(E, a, sa), sig=sig)
        elif op == 'neg':
            c = -a
            E.prove('conversion-negated', near(E, c.X, -a.X), sig=sig)
            E.prove('returns-new-object', new_object(c, a), sig=sig)
            E.prove('operands-unchanged', unchanged(E, a, sa), sig=sig)
        elif op == 'copy':
            c = a.copy()
            E.prove('copy-equal', same_vec(E, xnu(c), xnu(a)) if True else True, sig=sig)
            E.prove('returns-new-object', new_object(c, a), sig=sig)
            c.X = k
            c._stoichiometry[2] = k
            E.prove('operands-unchanged', unchanged(E, a, sa), sig=sig)
        elif op == 'rebase':
            other = 'wt' if basis == 'mol' else 'mol'
            c = a.copy(other)
            E.prove('returns-new-object', new_object(c, a), sig=sig)
            E.prove('operands-unchanged', unchanged(E, a, sa), sig=sig)
            # the re-based copy converts the same molar amounts
            E.prove('rebased-copy-acts-alike', same_vec(E, effect(E, c, feed), ea), sig=sig)
        else:
            if reactant == 0:
                # Glucose -> nu1 Ethanol + nu4 CO2 : two products, a reactant must be named
                c = a.backwards(reactant=R.IDS[1])
                new_r = 1
            else:
                raise core.PathAbort('backwards: single shape')
            E.prove('backwards-returns-new-object', new_object(c, a), sig=sig)
            E.prove('backwards-new-reactant', c._reactant_index == new_r, sig=sig)
            E.prove('backwards-normalised', near(E, c._stoichiometry.dct.get(new_r, 0.0), -1.0), sig=sig)
            E.prove('operands-unchanged', unchanged(E, a, sa), sig=sig)
    return run


def g_backwards_default():
    """backwards() with the reactant inferred (exactly one product)"""
    def run(E):
        fx = R.fixture(not E.concrete)
        th = fx['thermo']
        # single-product reaction: 6 CO2 + 6 H2O -> Glucose + 6 O2 is not single-product; use
        # an (unbalanced-by-design is not allowed) balanced one: 2 Ethanol + 2 CO2 -> Glucose
        X = E.real('X', lo=0, hi=1, nice=(0.1, 0.9))
        E.assume(X > 0)
        nu = R.balanced_stoichiometry(E, fx, 'b', 1, [0, 4])      # Ethanol -> nu0 Glucose + nu4 CO2
        E.assume(nu[0] > 0)
        E.assume(nu[4] < 0)
        a = tmo.Reaction({R.IDS[i]: nu[i] for i in (0, 1, 4)}, reactant='Ethanol', X=X, chemicals=th.chemicals)
        sa = snap(a)
        c = a.backwards()
        E.prove('backwards-returns-new-object', new_object(c, a), sig='default-reactant')
        E.prove('operands-unchanged', unchanged(E, a, sa), sig='default-reactant')
        E.prove('backwards-new-reactant', c._reactant_index == 0, sig='default-reactant')
        E.prove('backwards-normalised', near(E, c._stoichiometry.dct.get(0, 0.0), -1.0), sig='default-reactant')
    return run


def g_no_reaction_operand():
    """a + b / a - b where b has X = 0 (no reaction): result must still be a new object"""
    def run(E):
        fx = R.fixture(not E.concrete)
        a, nu, X = R.mk_reaction(E, fx, 'a', 0, [1, 4], 'mol')
        E.assume(X > 0)
        b, _, _ = R.mk_reaction(E, fx, 'b', 0, [2, 3, 4], 'mol', X=0.0)
        op = E.pick(['add', 'sub'], 'op')
        sa = snap(a)
        c = a + b if op == 'add' else a - b
        E.prove('returns-new-object', new_object(c, a, b), sig=f'{op}/X_b=0')
        E.prove('acts-like-a', same_vec(E, xnu(c), xnu(a)), sig=f'{op}/X_b=0')
        c.X = X / 2
        E.prove('operands-unchanged', unchanged(E, a, sa), sig=f'{op}/X_b=0')
    return run


def g_items():
    def run(E):
        fx = R.fixture(not E.concrete)
        kind = E.pick(['parallel', 'series'], 'kind')
        a, nua, Xa = R.mk_reaction(E, fx, 'a', 0, [1, 4], 'mol')
        b, nub, Xb = R.mk_reaction(E, fx, 'b', 0, [2, 3, 4], 'mol')
        rs = (tmo.ParallelReaction if kind == 'parallel' else tmo.SeriesReaction)([a, b])
        j = E.choice(2, 'item')
        item = rs[j]
        x = E.real('x', lo=0, hi=1, nice=(0.1, 0.9))
        y = E.real('y', lo=0, hi=1, nice=(0.1, 0.9))
        item.X = x
        E.prove('item-write-visible-in-set', E.eq(rs.X[j], x), sig=kind)
        rs.X[j] = y
        E.prove('set-write-visible-in-item', E.eq(item.X, y), sig=kind)
        E.prove('other-item-untouched', E.eq(rs.X[1 - j], (Xb if j == 0 else Xa)), sig=kind)
        # all conversions replaced at once through the property, with handles (item, sliced sub-set) taken BEFORE
        sub = rs[j:j + 1]
        how = E.pick(['list', 'array', 'none'], 'whole-vector-assignment')
        if how != 'none':
            w = [E.real(f'w{i}', lo=0, hi=1, nice=(0.1, 0.9)) for i in range(2)]
            rs.X = list(w) if how == 'list' else C.array(E, list(w))
            E.prove('whole-vector-write-visible-in-earlier-item-handle', E.eq(item.X, w[j]), sig=f'{kind}/{how}')
            E.prove('whole-vector-write-visible-in-earlier-subset-handle', E.eq(sub.X[0], w[j]), sig=f'{kind}/{how}')
            z = E.real('z', lo=0, hi=1, nice=(0.1, 0.9))
            item.X = z
            E.prove('item-write-after-whole-vector-write-visible-in-set', E.all([E.eq(rs.X[j], z), E.eq(rs.X[1 - j], w[1 - j])]), sig=f'{kind}/{how}')
            Xb_, Xa_ = w[1], w[0]
        # items share stoichiometry rows with the set
        E.prove('item-shares-stoichiometry', item._stoichiometry is rs._stoichiometry[j], sig=kind)
        c = item.copy()
        E.prove('item-copy-is-independent', c._stoichiometry is not item._stoichiometry and c._stoichiometry.dct is not item._stoichiometry.dct, sig=kind)
        if kind == 'parallel':
            red = rs.reduce()
            feed = feed_flows(E, 'f', 5, [1] * 5)
            sp = C.mod('thermosteam.base.sparse')
            m1, m2 = sp.SparseVector.from_size(5), sp.SparseVector.from_size(5)
            S.inject(m1, feed)
            S.inject(m2, feed)
            d1, d2 = rs._conversion(m1), red._conversion(m2)
            v1 = [d1.dct.get(i, 0.0) for i in range(5)]
            v2 = [d2.dct.get(i, 0.0) for i in range(5)]
            E.assume(E.gt(rs.X[0] + rs.X[1], 0.0))
            E.prove('reduce-acts-like-the-set', same_vec(E, v1, v2), sig=kind)
    return run


def groups(tier):
    return {
        'add-sub': (g_add_sub(), dict(max_paths=200000, qtimeout_ms=20000)),
        'scale-copy-neg-rebase-backwards': (g_scale(), dict(max_paths=200000, qtimeout_ms=20000)),
        'backwards-default-reactant': (g_backwards_default(), {}),
        'operand-without-reaction': (g_no_reaction_operand(), {}),
        'items-and-sets': (g_items(), dict(qtimeout_ms=20000)),
    }
