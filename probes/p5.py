import os, time, sys, importlib
os.environ['NUMBA_DISABLE_JIT'] = '1'
import numpy as np
import symx, z3
from symx import Engine, SymNum, SymBool, symfloat
import thermosteam as tmo
sp = importlib.import_module("thermosteam.base.sparse")
import thermosteam.indexer as ix, thermosteam._stream as st, thermosteam._thermal_condition as tc
import thermosteam.equilibrium.vle as vle
for m in (sp, ix, st, tc, vle): m.float = symfloat

# --- numpy shim: object arrays when symbolic values are around
class OArr(np.ndarray):
    """object ndarray whose boolean-mask indexing accepts symbolic bools (forks)"""
    def __new__(cls, a):
        return np.asarray(a, dtype=object).view(cls)
    def _fix(self, k):
        if isinstance(k, np.ndarray) and k.dtype == object and k.size and isinstance(k.flat[0], (SymBool, bool, np.bool_)):
            return np.array([bool(i) for i in k.flat], dtype=bool).reshape(k.shape)
        return k
    def __getitem__(self, k): return super().__getitem__(self._fix(k))
    def __setitem__(self, k, v): return super().__setitem__(self._fix(k), v)
class Shim:
    def __getattr__(self, n): return getattr(np, n)
    def zeros(self, shape, dtype=None):
        if dtype in (None, float):
            a = np.empty(shape, dtype=object); a[...] = 0.0; return a.view(OArr)
        return np.zeros(shape, dtype=dtype)
    def array(self, obj, dtype=None, **kw):
        if dtype in (None, float):
            try:
                lst = list(obj)
                if any(isinstance(i, SymNum) for i in lst): return OArr(lst)
            except TypeError: pass
        return np.array(obj, dtype=dtype, **kw)
shim = Shim()
sp.np = shim; vle.np = shim; ix.np = shim

chems = tmo.Chemicals(['Water', 'Ethanol', 'Octane'])
tmo.settings.set_thermo(chems, cache=True)
N = 3
class StubPoint:
    def __init__(s, E, n): s.E, s.n = E, n
    Pmax = 1e7; Pmin = 1e3; Tmin=200.; Tmax=600.
    def _vec(s, tag): return OArr([s.E.fresh_real(tag) for _ in range(s.n)])
    @property
    def Psats(s): return [lambda T: s.E.fresh_real('Psat') for _ in range(s.n)]
    def solve_Px(s, z, T, *a): return s.E.fresh_real('Pdew'), s._vec('xdew')
    def solve_Py(s, z, T, *a): return s.E.fresh_real('Pbub'), s._vec('ybub')
def harness(E):
    ms = tmo.MultiStream(None, phases='lg')
    rows = ms.imol.data.rows  # g, l
    fl = [[E.fresh_real(f'f{p}{i}') for i in range(N)] for p in range(2)]
    for p in range(2):
        for i in range(N):
            E.assume(fl[p][i].z >= 0)
            if fl[p][i] != 0: rows[p].dct[i] = fl[p][i]
    E.assume(sum(fl[0] + fl[1]).z > 0)
    T = E.fresh_real('T'); P = E.fresh_real('P')
    E.assume(z3.And(T.z > 250, T.z < 500, P.z > 1e4, P.z < 5e6))
    class SVLE(vle.VLE):
        __slots__ = ()
        def _setup(self, *a):
            vle.VLE._setup(self, *a)
            if self._N > 1:
                n = len(self._index)
                self._bubble_point = StubPoint(E, n); self._dew_point = StubPoint(E, n)
                self._pcf = lambda T, P, Ps: 1.0
        def _refresh_K(self, *a): pass
        def _solve_v_fixed_point(self, *a): return OArr([E.fresh_real('v') for _ in self._index])
        def _set_thermal_condition_chemical(self, T, P): pass
    V = SVLE(ms.imol, ms._thermal_condition, ms._thermo)
    try:
        V.set_thermal_condition(T, P)
    except vle.NoEquilibrium:
        return ['noeq']
    out = []
    for i in range(N):
        g = rows[0].dct.get(i, 0.); l = rows[1].dct.get(i, 0.)
        out.append(E.prove(g + l == fl[0][i] + fl[1][i], 'cons')[0])
        out.append(E.prove(z3.And((g >= 0).z if isinstance(g, SymNum) else True, (l >= 0).z if isinstance(l, SymNum) else True), 'nonneg')[0])
    return out
VLE = vle.VLE
# allow instance attribute overrides: VLE has __slots__? check
E = Engine()
t = time.time()
R = E.explore(harness, max_paths=3000)
print(len(R), 'paths', time.time() - t, 's', E.stats)
from collections import Counter
print(Counter(str(r[1])[:160] for r in R).most_common(8))
