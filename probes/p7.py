import os, time, sys, importlib, warnings
os.environ['NUMBA_DISABLE_JIT'] = '1'
warnings.simplefilter('ignore')
import symx, z3
from symx import Engine
import thermosteam as tmo
tmo.settings.set_thermo(tmo.Chemicals([]))
class Fix(tmo.AbstractUnit):
    _N_ins = 2; _N_outs = 1
class Var(tmo.AbstractUnit):
    _N_ins = 1; _N_outs = 2; _ins_size_is_fixed = False; _outs_size_is_fixed = False
def inv(units, streams):
    bad = []
    for u in units:
        for s in u.ins:
            if s and s.sink is not u: bad.append(('in-not-sink', u, s))
        for s in u.outs:
            if s and s.source is not u: bad.append(('out-not-source', u, s))
        real = [s for s in list(u.ins) + list(u.outs) if s]
    for s in streams:
        if s.sink is not None and sum(1 for x in s.sink.ins if x is s) != 1: bad.append(('sink-not-in', s))
        if s.source is not None and sum(1 for x in s.source.outs if x is s) != 1: bad.append(('source-not-out', s))
    return bad
def harness(E):
    us = [Fix(None, ins=None, outs=None), Var(None, ins=None, outs=None)]
    ss = [tmo.AbstractStream(None) for _ in range(3)]
    # arbitrary consistent pre-state: each stream picks a sink slot and a source slot
    for s in ss:
        k = E.choice(3, 'sink')       # 0 none, 1..3 unit
        if k:
            u = us[k-1]
            if u._ins_size_is_fixed:
                free = [i for i, x in enumerate(u.ins) if not x]
                if not free: raise symx.PathAbort('full')
                u.ins[free[E.choice(len(free), 'slot')]] = s
            else: u.ins.append(s)
        k = E.choice(3, 'src')
        if k:
            u = us[k-1]
            if u._outs_size_is_fixed:
                free = [i for i, x in enumerate(u.outs) if not x]
                if not free: raise symx.PathAbort('full')
                u.outs[free[E.choice(len(free), 'slot')]] = s
            else: u.outs.append(s)
    assert not inv(us, ss)
    op = E.choice(5, 'op'); u = us[E.choice(2, 'u')]; s = ss[E.choice(3, 's')]
    try:
        if op == 0:
            i = E.choice(len(u.ins) or 1, 'i'); u.ins[i] = s if s not in u.ins else None
        elif op == 1:
            if u._ins_size_is_fixed or s.sink is not None: raise symx.PathAbort('pre')
            u.ins.append(s)
        elif op == 2:
            if not len(u.ins): raise symx.PathAbort('pre')
            u.ins.pop(E.choice(len(u.ins), 'i'))
        elif op == 3:
            s.disconnect()
        elif op == 4:
            u.disconnect()
    except symx.PathAbort: raise
    return op, [b[0] for b in inv(us, ss)]
E = Engine()
t = time.time()
R = E.explore(harness, max_paths=200000)
print(len(R), 'paths', time.time() - t, 's', E.stats)
from collections import Counter
print(Counter(str(r[1]) for r in R).most_common(12))
