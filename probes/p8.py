import z3, time
F = z3.Float64(); rm = z3.RNE()
a, b = z3.FP('a', F), z3.FP('b', F)
def rng(x, lo, hi):
    ax = z3.fpAbs(x)
    return z3.And(z3.fpGEQ(ax, z3.FPVal(lo, F)), z3.fpLEQ(ax, z3.FPVal(hi, F)))
for name, op in (('mul', z3.fpMul), ('div', z3.fpDiv)):
    for lo, hi in ((1e-100, 1e100), (5e-324, 1e308)):
        s = z3.Solver(); s.set('timeout', 120000)
        s.add(rng(a, lo, hi), rng(b, lo, hi), z3.fpIsZero(op(rm, a, b)))
        t = time.time(); r = s.check(); print(name, lo, hi, r, round(time.time() - t, 2), s.model() if r == z3.sat else '')
# add: a + b == 0 iff a == -b
s = z3.Solver(); s.set('timeout', 120000)
s.add(rng(a, 5e-324, 1e308), rng(b, 5e-324, 1e308), z3.fpIsZero(z3.fpAdd(rm, a, b)), z3.Not(z3.fpEQ(a, z3.fpNeg(b))))
t = time.time(); print('add', s.check(), round(time.time() - t, 2))
