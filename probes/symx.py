"""Prototype: tiny z3-backed dynamic symbolic executor (probe only)."""
import z3, time, math, builtins
import numpy as _np

class PathAbort(BaseException): pass

class Engine:
    def __init__(self, qtimeout_ms=10000):
        self.qtimeout = qtimeout_ms
        self.stats = dict(paths=0, queries=0, solver_s=0.0, unknown=0)
    # --- per path state
    def _reset(self, prefix):
        self.prefix = prefix
        self.decisions = []
        self.pc = []
        self.pending = []
        self.solver = z3.Solver()
        self.solver.set('timeout', self.qtimeout)
        self.nvars = 0
    def _check(self, *extra):
        t = time.time()
        self.solver.push()
        for e in extra: self.solver.add(e)
        import threading
        timer = threading.Timer(self.qtimeout / 1000.0 + 1.0, z3.main_ctx().interrupt)
        timer.start()
        try: r = self.solver.check()
        finally: timer.cancel()
        m = self.solver.model() if r == z3.sat else None
        self.solver.pop()
        self.stats['queries'] += 1
        self.stats['solver_s'] += time.time() - t
        return str(r), m
    def branch(self, cond):
        """cond: z3 BoolRef. returns python bool, forking."""
        cond = z3.simplify(cond)
        if z3.is_true(cond): return True
        if z3.is_false(cond): return False
        i = len(self.decisions)
        if i < len(self.prefix):
            d = self.prefix[i]
        else:
            rt, _ = self._check(cond)
            rf, _ = self._check(z3.Not(cond))
            if rt == 'unknown' or rf == 'unknown':
                self.stats['unknown'] += 1
            if rt == 'sat' and rf == 'sat':
                d = True
                self.pending.append(self.decisions + [False])
            elif rt == 'sat' or (rt == 'unknown' and rf == 'unsat'):
                d = True
            elif rf == 'sat' or (rf == 'unknown' and rt == 'unsat'):
                d = False
            else:
                raise PathAbort('infeasible/unknown')
        self.decisions.append(d)
        c = cond if d else z3.Not(cond)
        self.pc.append(c); self.solver.add(c)
        return d
    def choice(self, n, name='c'):
        """fork over range(n) without solver."""
        if n <= 1: return 0
        i = len(self.decisions)
        if i < len(self.prefix):
            d = self.prefix[i]
        else:
            d = 0
            for k in range(n - 1, 0, -1): self.pending.append(self.decisions + [k])
        self.decisions.append(d)
        return d
    def fresh_real(self, name):
        self.nvars += 1
        return SymNum(z3.Real(f'{name}_{self.nvars}'))
    def fresh_int(self, name):
        self.nvars += 1
        return SymNum(z3.Int(f'{name}_{self.nvars}'))
    def assume(self, cond):
        if isinstance(cond, SymBool): cond = cond.z
        if cond is True: return
        if cond is False: raise PathAbort('assume false')
        self.pc.append(cond); self.solver.add(cond)
        r, _ = self._check()
        if r == 'unsat': raise PathAbort('assume infeasible')
    def prove(self, cond, label=''):
        """obligation: PC => cond."""
        if isinstance(cond, SymBool): cond = cond.z
        if cond is True: return ('ok', None)
        if cond is False: cond = z3.BoolVal(False)
        r, m = self._check(z3.Not(cond))
        if r == 'unsat': return ('ok', None)
        if r == 'sat': return ('cex', m)
        return ('unknown', None)
    def explore(self, fn, max_paths=100000):
        work = [[]]
        results = []
        while work and self.stats['paths'] < max_paths:
            prefix = work.pop()
            self._reset(prefix)
            global ENG
            ENG = self
            try:
                out = fn(self)
                results.append((list(self.decisions), out))
            except PathAbort as e:
                results.append((list(self.decisions), ('abort', str(e))))
            self.stats['paths'] += 1
            work.extend(self.pending)
        return results

ENG = None

def _z(x):
    if isinstance(x, SymNum): return x.z
    if isinstance(x, bool): return z3.RealVal(int(x))
    if isinstance(x, (int,)): return z3.RealVal(x)
    if isinstance(x, (float, _np.floating)):
        return z3.RealVal(repr(float(x))) if math.isfinite(x) else None
    if isinstance(x, _np.integer): return z3.RealVal(int(x))
    return None

class SymBool:
    __slots__ = ('z',)
    def __init__(self, z_): self.z = z_
    def __bool__(self): return ENG.branch(self.z)
    def __and__(self, o): return SymBool(z3.And(self.z, o.z if isinstance(o, SymBool) else z3.BoolVal(bool(o))))
    def __or__(self, o): return SymBool(z3.Or(self.z, o.z if isinstance(o, SymBool) else z3.BoolVal(bool(o))))
    def __invert__(self): return SymBool(z3.Not(self.z))

class SymNum:
    __slots__ = ('z',)
    __array_ufunc__ = None
    def __init__(self, z_): self.z = z_
    def _bin(self, o, f, r=False):
        if isinstance(o, _np.ndarray):
            out = _np.empty(o.shape, dtype=object)
            for idx, v in _np.ndenumerate(o):
                out[idx] = self._bin(v, f, r)
            return out
        oz = _z(o)
        if oz is None: return NotImplemented
        return SymNum(f(oz, self.z) if r else f(self.z, oz))
    def __add__(s, o): return s._bin(o, lambda a, b: a + b)
    def __radd__(s, o): return s._bin(o, lambda a, b: a + b, True)
    def __sub__(s, o): return s._bin(o, lambda a, b: a - b)
    def __rsub__(s, o): return s._bin(o, lambda a, b: a - b, True)
    def __mul__(s, o): return s._bin(o, lambda a, b: a * b)
    def __rmul__(s, o): return s._bin(o, lambda a, b: a * b, True)
    def _div(a, b):
        if not ENG.branch(b != 0): raise ZeroDivisionError('float division by zero')
        return a / b
    def __truediv__(s, o): return s._bin(o, SymNum._div)
    def __rtruediv__(s, o): return s._bin(o, SymNum._div, True)
    def __neg__(s): return SymNum(-s.z)
    def __pos__(s): return s
    def __abs__(s): return SymNum(z3.If(s.z >= 0, s.z, -s.z))
    def _cmp(s, o, f):
        oz = _z(o)
        if oz is None: return NotImplemented
        return SymBool(f(s.z, oz))
    def __eq__(s, o):
        r = s._cmp(o, lambda a, b: a == b)
        return False if r is NotImplemented else r
    def __ne__(s, o):
        r = s._cmp(o, lambda a, b: a != b)
        return True if r is NotImplemented else r
    def __lt__(s, o): return s._cmp(o, lambda a, b: a < b)
    def __le__(s, o): return s._cmp(o, lambda a, b: a <= b)
    def __gt__(s, o): return s._cmp(o, lambda a, b: a > b)
    def __ge__(s, o): return s._cmp(o, lambda a, b: a >= b)
    def __bool__(s): return ENG.branch(s.z != 0)
    def __float__(s): return s   # only valid when called as a method
    def __hash__(s): return hash(s.z)
    def __repr__(s): return f'Sym({s.z})'
    def __format__(s, spec): return repr(s)

def symfloat(x=0.0):
    if isinstance(x, SymNum): return x
    return builtins.float(x)

_UF = {}
def uf(name, *args):
    zs = [_z(a) for a in args]
    key = (name, len(zs))
    if key not in _UF:
        _UF[key] = z3.Function(name, *([z3.RealSort()] * (len(zs) + 1)))
    return SymNum(_UF[key](*zs))
