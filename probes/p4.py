import os, time, sys
os.environ['NUMBA_DISABLE_JIT'] = '1'
import symx, z3
from symx import Engine, SymNum, symfloat
import thermosteam as tmo
import importlib; sp = importlib.import_module("thermosteam.base.sparse"); import thermosteam.indexer as ix, thermosteam._stream as st, thermosteam._thermal_condition as tc
import thermosteam.reaction._reaction as rx
for m in (sp, ix, st, tc, rx): m.float = symfloat
chems = tmo.Chemicals(['Glucose', 'Ethanol', 'H2O', 'O2', 'CO2'])
tmo.settings.set_thermo(chems, cache=True)
N = 5
def mk(E, tag):
    a = tmo.Reaction('Glucose + O2 -> Ethanol + CO2', reactant='Glucose', X=0.5)
    # symbolic stoichiometry (reactant coefficient -1) and conversion
    d = a._stoichiometry.dct
    for i in list(d):
        if i != a._reactant_index:
            v = E.fresh_real(f'{tag}s{i}'); E.assume(v.z != 0); d[i] = v
    X = E.fresh_real(f'{tag}X'); E.assume(z3.And(X.z > 0, X.z <= 1))
    a._X = X
    return a
def apply(r, feed):
    sv = sp.SparseVector.from_dict({i: v for i, v in enumerate(feed)}, N)
    r._reaction(sv)
    return sv
def harness(E):
    a = mk(E, 'a'); b = mk(E, 'b')
    E.assume((a._X + b._X).z <= 1)
    feed = [E.fresh_real(f'f{i}') for i in range(N)]
    for v in feed: E.assume(v.z > 0)
    which = E.choice(2, 'w')
    out = []
    if which == 0:
        c = a + b
        lhs = apply(c, feed)
        # parallel reference: feed + feed[r]*(Xa*sa + Xb*sb)
        r = a._reactant_index
        for i in range(N):
            ref = feed[i] + feed[r] * (a._X * a._stoichiometry.dct.get(i, 0) + b._X * b._stoichiometry.dct.get(i, 0))
            out.append(E.prove(lhs.dct.get(i, 0.) == ref, f'add{i}')[0])
    else:
        E.assume((a._X - b._X).z != 0)
        c = a - b          # needs Xa != Xb
        a2 = a.copy(); a2 -= b
        for i in range(N):
            st_, m = E.prove(c._stoichiometry.dct.get(i, 0.) == a2._stoichiometry.dct.get(i, 0.), f'isub{i}')
            out.append(st_ if st_ != 'cex' else ('cex', str(m)[:200]))
    return out
E = Engine()
t = time.time()
R = E.explore(harness)
print(len(R), 'paths', time.time() - t, 's', E.stats)
for r in R[:6]: print(r)
from collections import Counter
print(Counter(str(r[1])[:160] for r in R).most_common(8))
