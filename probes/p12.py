import os, time, sys, importlib
os.environ['NUMBA_DISABLE_JIT'] = '1'
import numpy as np
import symx, z3
from symx import Engine, SymNum, SymBool, symfloat
import thermosteam as tmo
sp = importlib.import_module("thermosteam.base.sparse")
import thermosteam.indexer as ix, thermosteam._stream as st, thermosteam._thermal_condition as tc
import thermosteam.reaction._reaction as rx
import thermosteam.base.dictionary_view as dv
for m in (sp, ix, st, tc, rx, dv): m.float = symfloat
chems = tmo.Chemicals(['Glucose', 'Ethanol', 'H2O', 'O2', 'CO2'])
tmo.settings.set_thermo(chems, cache=True)
C = tmo.settings.get_thermo().chemicals
N = C.size
FA = C.formula_array
rows = [i for i in range(FA.shape[0]) if FA[i].any()]   # C, H, O
print('elements rows', rows)
def harness(E):
    basis = ['mol', 'wt'][E.choice(2, 'basis')]
    from fractions import Fraction
    AW = {0: '1008/1000', 5: '12011/1000', 7: '15999/1000'}
    w = {r: SymNum(z3.RealVal(AW[r])) for r in rows}
    MW = np.empty(N, dtype=object)
    for i in range(N): MW[i] = sum(float(FA[r, i]) * w[r] for r in rows)
    old = C.__dict__['MW']; C.__dict__['MW'] = MW
    try:
        r = tmo.Reaction('Glucose -> 2Ethanol + 2CO2', reactant='Glucose', X=0.5)   # mol basis
        d = r._stoichiometry.dct
        for i in list(d):
            if i != r._reactant_index:
                v = E.fresh_real(f's{i}'); E.assume(v.z != 0); d[i] = v
        # atomic balance constraint on molar stoichiometry
        for rr in rows:
            E.assume(sum(float(FA[rr, i]) * d.get(i, 0.) for i in range(N)).z == 0) if any(FA[rr, i] for i in d) else None
        X = E.fresh_real('X'); E.assume(z3.And(X.z >= 0, X.z <= 1)); r._X = X
        if basis == 'wt': r.basis = 'wt'
        s = tmo.Stream(None)
        f = [E.fresh_real(f'f{i}') for i in range(N)]
        for i, v in enumerate(f):
            E.assume(v.z >= 0)
            if v != 0: s.imol.data.dct[i] = v
        try:
            r(s)
        except rx.InfeasibleRegion:
            return basis, 'infeasible'
        out = []
        after = [s.imol.data.dct.get(i, 0.) for i in range(N)]
        for rr in rows:
            out.append(E.prove(sum(float(FA[rr, i]) * (after[i] - f[i]) for i in range(N)) == 0)[0])
        out.append(E.prove(sum(MW[i] * (after[i] - f[i]) for i in range(N)) == 0)[0])
        out.append(E.prove(after[0] == f[0] - X * f[0])[0])
        out.append(E.prove(z3.And(*[(a >= 0).z for a in after if isinstance(a, SymNum)]))[0])
        return basis, tuple(out)
    finally:
        C.__dict__['MW'] = old
import faulthandler; faulthandler.dump_traceback_later(60, exit=True)
E = Engine()
t = time.time()
R = E.explore(harness, max_paths=5000)
print(len(R), 'paths', time.time() - t, 's', E.stats)
from collections import Counter
print(Counter(str(r[1]) for r in R).most_common(8))
