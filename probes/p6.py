import os, time, sys, importlib
os.environ['NUMBA_DISABLE_JIT'] = '1'
import symx, z3
from symx import Engine, SymNum, SymBool, symfloat, uf
import thermosteam as tmo
import thermosteam._chemical as ch, thermosteam.free_energy as fe
from thermosteam.base.phase_handle import PhaseTHandle
from thermo.eos import IG
fe.log = lambda x: uf('ln', x)

class CnModel:
    def __init__(s, ph): s.ph = ph
    def __bool__(s): return True
    def __call__(s, T): return uf('Cn_' + s.ph, T)
    def T_dependent_property_integral(s, a, b): return uf('F_' + s.ph, b) - uf('F_' + s.ph, a)
    def T_dependent_property_integral_over_T(s, a, b): return uf('G_' + s.ph, b) - uf('G_' + s.ph, a)

class FakeChem:
    P_ref = 101325.; T_ref = 298.15; H_ref = 0.; _Tc = None; _locked_state = None
def harness(E):
    c = FakeChem()
    ref = 'slg'[E.choice(3, 'ref')]
    Tm = E.fresh_real('Tm'); Tb = E.fresh_real('Tb'); Hfus = E.fresh_real('Hfus'); S0 = E.fresh_real('S0')
    E.assume(z3.And(Tm.z > 0, Tb.z > Tm.z, Hfus.z > 0))
    Sfus = Hfus / Tm; E.assume(uf('Hvap', Tb).z > 0)
    Hvap = lambda T: uf('Hvap', T)
    Cn = PhaseTHandle('Cn', CnModel('s'), CnModel('l'), CnModel('g'))
    ch.Chemical._init_energies(c, Cn, Hvap, None, Hfus, Sfus, Tm, Tb, IG(T=298.15, P=101325.), ref, S0)
    H, S = c._H, c._S
    T = E.fresh_real('T'); P = E.fresh_real('P'); P2 = E.fresh_real('P2')
    E.assume(z3.And(T.z > 0, P.z > 0, P2.z > 0))
    out = {}
    out['Href0'] = E.prove(H(ref, 298.15, 101325.) == 0)[0]
    out['Sref'] = E.prove(S(ref, 298.15, 101325.) == S0 if ref != 'g' else S('g', 298.15, 101325.) == S0 - tmo.constants.R * uf('ln', 1.0))[0]
    out['vapH'] = E.prove(H('g', Tb, P) - H('l', Tb, P) == Hvap(Tb))[0]
    out['fusH'] = E.prove(H('l', Tm, P) - H('s', Tm, P) == Hfus)[0]
    out['vapS'] = E.prove(S('g', Tb, P) - S('l', Tb, P) == Hvap(Tb) / Tb - tmo.constants.R * uf('ln', P / 101325.))[0]
    out['fusS'] = E.prove(S('l', Tm, P) - S('s', Tm, P) == Hfus / Tm)[0]
    T2 = E.fresh_real('T2')
    for ph in 'slg':
        out['dH' + ph] = E.prove(H(ph, T2, P) - H(ph, T, P) == uf('F_' + ph, T2) - uf('F_' + ph, T))[0]
    return ref, out
E = Engine()
t = time.time()
R = E.explore(harness)
print(len(R), 'paths', time.time() - t, 's', E.stats)
for r in R: print(r[1])
