import os, time, sys, warnings, itertools
warnings.simplefilter('ignore')
import z3
import thermosteam as tmo
from thermosteam.network import Network
tmo.settings.set_thermo(tmo.Chemicals([]))
class U(tmo.AbstractUnit):
    _N_ins = 1; _N_outs = 1; _ins_size_is_fixed = False; _outs_size_is_fixed = False
def build(n, edges):
    us = [U(f'U{i}_{id(edges)%9999}', ins=None, outs=None) for i in range(n)]
    for u in us: u.ins.clear(); u.outs.clear()
    for (a, b) in edges:
        s = tmo.AbstractStream(None)
        us[a].outs.append(s); us[b].ins.append(s)
    for u in us:
        if not len(u.ins): u.ins.append(tmo.AbstractStream(None))      # feed
        if not len(u.outs): u.outs.append(tmo.AbstractStream(None))    # product
    return us
def flat(net):
    out = []
    for i in net.path:
        if isinstance(i, Network): out.extend(flat(i))
        else: out.append(i)
    return out
# AllSAT over DAGs on n nodes: e[i][j] bool, rank ints
def dags(n):
    s = z3.Solver()
    e = [[z3.Bool(f'e{i}{j}') for j in range(n)] for i in range(n)]
    r = [z3.Int(f'r{i}') for i in range(n)]
    for i in range(n):
        s.add(z3.Not(e[i][i]), r[i] >= 0, r[i] < n)
        for j in range(n):
            if i != j: s.add(z3.Implies(e[i][j], r[i] < r[j]))
    vars_ = [e[i][j] for i in range(n) for j in range(n) if i != j]
    seen = 0
    while s.check() == z3.sat:
        m = s.model()
        val = [bool(m.eval(v, model_completion=True)) for v in vars_]
        s.add(z3.Or([v != b for v, b in zip(vars_, val)]))
        edges = [(i, j) for (i, j), b in zip([(i, j) for i in range(n) for j in range(n) if i != j], val) if b]
        yield edges
n = 4
t = time.time(); cnt = bad = 0; examples = []
for edges in dags(n):
    # connectivity (weak) filter
    adj = {i: set() for i in range(n)}
    for a, b in edges: adj[a].add(b); adj[b].add(a)
    seen = {0}; st = [0]
    while st:
        x = st.pop()
        for y in adj[x]:
            if y not in seen: seen.add(y); st.append(y)
    if len(seen) != n: continue
    for perm in itertools.permutations(range(n)):
        us = build(n, edges)
        net = Network.from_units([us[i] for i in perm])
        path = flat(net)
        ok = len(path) == n and set(path) == set(us)
        pos = {u: k for k, u in enumerate(path)}
        if ok: ok = all(pos[us[a]] < pos[us[b]] for a, b in edges)
        rec = net.get_all_recycles()
        cnt += 1
        if not ok or rec:
            bad += 1
            if len(examples) < 3: examples.append((edges, perm, [str(u) for u in path], len(rec)))
print(cnt, 'cases', bad, 'bad', round(time.time() - t, 1), 's'); print(examples)
