import thermosteam as tmo
from thermosteam.base.sparse import SparseVector
chems = tmo.Chemicals(['Water', 'Ethanol'])
tmo.settings.set_thermo(chems, cache=True)
S = tmo.Stream

def _mix(a0: float, a1: float, b0: float, b1: float, selfmix: bool) -> bool:
    """
    pre: 0 <= a0 <= 1e6 and 0 <= a1 <= 1e6 and 0 <= b0 <= 1e6 and 0 <= b1 <= 1e6
    post: _
    """
    a = S(None); b = S(None); r = S(None)
    for s, (x0, x1) in ((a, (a0, a1)), (b, (b0, b1))):
        d = s.imol.data.dct
        if x0 != 0: d[0] = x0
        if x1 != 0: d[1] = x1
    if selfmix:
        a.mix_from([a, b], energy_balance=False)
        r = a
        e0 = a0 + b0; e1 = a1 + b1
    else:
        r.mix_from([a, b], energy_balance=False)
        e0 = a0 + b0; e1 = a1 + b1
    d = r.imol.data.dct
    return d.get(0, 0.) == e0 and d.get(1, 0.) == e1
