from typing import Dict, List
from thermosteam.base.sparse import SparseVector

def dense(sv):
    return [sv.dct.get(i, 0.) for i in range(sv.size)]

def _add_matches(a: List[float], b: List[float]) -> bool:
    """
    pre: len(a) == len(b) and 1 <= len(a) <= 3
    post: _
    """
    x = SparseVector(a); y = SparseVector(b)
    r = x + y
    ok = all(r.dct.get(i, 0.) == a[i] + b[i] for i in range(len(a)))
    nz = all(v != 0 for v in r.dct.values())
    return ok and nz

def _mul_nonzero(a: List[float], k: float) -> bool:
    """
    pre: 1 <= len(a) <= 2
    post: _
    """
    x = SparseVector(a)
    r = x * k
    return all(v != 0 for v in r.dct.values())
