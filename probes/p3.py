import os, time, sys
os.environ['NUMBA_DISABLE_JIT'] = '1'
import symx, z3
from symx import Engine, SymNum, symfloat
import thermosteam as tmo
import importlib; sp = importlib.import_module("thermosteam.base.sparse"); import thermosteam.indexer as ix, thermosteam._stream as st, thermosteam._thermal_condition as tc
for m in (sp, ix, st, tc): m.float = symfloat
chems = tmo.Chemicals(['Water', 'Ethanol', 'Octane'])
tmo.settings.set_thermo(chems, cache=True)
N = 3
def harness(E):
    n_in = 2
    flows = [[E.fresh_real(f'f{s}{i}') for i in range(N)] for s in range(n_in)]
    for row in flows:
        for v in row: E.assume(v.z >= 0)
    selfmix = E.choice(2, 'selfmix')
    ins = []
    for s in range(n_in):
        ph = 'lg'[E.choice(2, f'ph{s}')]
        x = tmo.Stream(None, phase=ph)
        d = x.imol.data.dct
        for i, v in enumerate(flows[s]):
            if v != 0: d[i] = v
        ins.append(x)
    recv = ins[0] if selfmix else tmo.Stream(None)
    recv.mix_from(ins, energy_balance=False)
    tot = recv.imol.data
    if tot.ndim == 2: tot = tot.sum(0)
    res = []
    for i in range(N):
        got = tot.dct.get(i, 0.)
        res.append(E.prove(got == flows[0][i] + flows[1][i], f'chem{i}')[0])
        if i in tot.dct: res.append(E.prove(tot.dct[i] != 0, 'nz')[0])
    return res
E = Engine()
t = time.time()
R = E.explore(harness)
print(len(R), 'paths', time.time() - t, 's', E.stats)
from collections import Counter
print(Counter(str(r[1]) for r in R).most_common(5))
