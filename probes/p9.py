import os, time, sys, importlib
os.environ['NUMBA_DISABLE_JIT'] = '1'
import symx, z3
from symx import Engine, SymNum, SymBool, symfloat, uf
import thermosteam as tmo
sp = importlib.import_module("thermosteam.base.sparse")
import thermosteam.indexer as ix, thermosteam._stream as st, thermosteam._thermal_condition as tc
for m in (sp, ix, st, tc): m.float = symfloat
chems = tmo.Chemicals(['Water', 'Ethanol'])
tmo.settings.set_thermo(chems, cache=True)
N = 2
PH = {'l': 1, 'g': 2, 's': 3}
class StubMixture:
    def __getattr__(self, name):
        def f(phase, mol, T, P):
            comp = [mol.dct.get(i, 0.) for i in range(N)]
            return uf('prop_' + name, PH[phase], *comp, T, P)
        return f
class StubThermo:
    def __init__(s, real): s.real = real; s.mixture = StubMixture(); s.chemicals = real.chemicals
real = tmo.settings.get_thermo()
def fresh_value(s, name):
    d = s.imol.data; tot = d.sum()
    comp = [d.dct.get(i, 0.) / tot for i in range(N)]
    return uf('prop_' + name, PH[s.phase], *comp, s.T, s.P)
def harness(E):
    s = tmo.Stream(None)
    s._thermo = StubThermo(real)
    f = [E.fresh_real('f0'), E.fresh_real('f1')]
    for i, v in enumerate(f):
        E.assume(v.z > 0); s.imol.data.dct[i] = v
    T0 = E.fresh_real('T0'); E.assume(T0.z > 250); s._thermal_condition._T = T0
    p = None
    log = []
    viol = []
    depth = 6
    for step in range(depth):
        op = E.choice(4 if p is None else 5, 'op')
        if op == 0:   # read H on s
            got = s._get_property('H'); exp = fresh_value(s, 'H')
            r = E.prove(got == exp)[0]; log.append('rs'); 
            if r != 'ok': viol.append((tuple(log), r))
        elif op == 1: # set T
            Tn = E.fresh_real('T'); E.assume(Tn.z > 250); s._thermal_condition._T = Tn; log.append('T')
        elif op == 2: # write a flow
            v = E.fresh_real('w'); E.assume(v.z > 0); s.imol.data.dct[0] = v; log.append('w')
        elif op == 3:
            if p is None: p = s.proxy(); log.append('px')
            else:
                got = p._get_property('H'); exp = fresh_value(p, 'H')
                r = E.prove(got == exp)[0]; log.append('rp')
                if r != 'ok': viol.append((tuple(log), r))
        elif op == 4:
            got = p._get_property('H'); exp = fresh_value(p, 'H')
            r = E.prove(got == exp)[0]; log.append('rp')
            if r != 'ok': viol.append((tuple(log), r))
    return viol
E = Engine()
t = time.time()
R = E.explore(harness, max_paths=200000)
print(len(R), 'paths', time.time() - t, 's', E.stats)
bad = [r[1] for r in R if r[1] and r[1][0] != 'abort']
print(len(bad), 'violating paths; shortest:', min((b[0][0] for b in bad), key=len) if bad else None)
