import os, time, sys, importlib, operator
os.environ['NUMBA_DISABLE_JIT'] = '1'
import symx, z3
from symx import Engine, SymNum, SymBool, symfloat
sp = importlib.import_module("thermosteam.base.sparse")
sp.float = symfloat
SV = sp.SparseVector
def mk(E, size, tag):
    d = {}
    for i in range(size):
        if E.choice(2, f'{tag}p{i}'):
            v = E.fresh_real(f'{tag}{i}'); E.assume(v.z != 0); d[i] = v
    return SV.from_dict(d, size)
def dense(v): return [v.dct.get(i, 0.) for i in range(v.size)]
OPS = {'add': operator.add, 'sub': operator.sub, 'mul': operator.mul, 'truediv': operator.truediv,
       'iadd': operator.iadd, 'isub': operator.isub, 'imul': operator.imul, 'itruediv': operator.itruediv}
def harness(E):
    names = list(OPS)
    name = names[E.choice(len(names), 'op')]
    sa = [1, 3][E.choice(2, 'sa')]
    kind = E.choice(2, 'kind')   # 0 sparse, 1 scalar
    a = mk(E, sa, 'a'); da = dense(a)
    if kind == 0:
        sb = [1, 3][E.choice(2, 'sb')]
        b = mk(E, sb, 'b'); db = dense(b)
    else:
        b = E.fresh_real('k'); db = [b]; sb = 1
    n = max(sa, sb)
    inplace = name.startswith('i')
    base = name[1:] if inplace else name
    # numpy reference: broadcasting of length-1; in-place cannot grow the target
    if inplace and sa == 1 and sb == 3: ref_error = True
    else: ref_error = False
    A = da * n if sa == 1 else da
    B = db * n if len(db) == 1 else db
    try:
        if base == 'truediv':
            for y in B:
                if y == 0: raise symx.PathAbort('div by zero: numpy gives inf/nan; out of scope')
        r = OPS[name](a, b)
    except (ZeroDivisionError, ValueError) as e:
        return name, sa, sb, kind, 'raised ' + type(e).__name__, ref_error
    out = []
    if ref_error: out.append('no-error-on-nonbroadcastable-inplace')
    ref = [OPS[base](x, y) for x, y in zip(A, B)]
    got = dense(r)
    if len(got) != len(ref): out.append('size')
    else:
        for g, x in zip(got, ref):
            if E.prove(g == x)[0] != 'ok': out.append('value')
    for v in r.dct.values():
        if E.prove(v != 0)[0] != 'ok': out.append('stored-zero')
    if not inplace and (r.dct is a.dct or (kind == 0 and r.dct is b.dct)): out.append('alias')
    if inplace and r is not a: out.append('inplace-new-object')
    if kind == 0 and dense(b) != db and not (b is a): out.append('operand-changed')
    return name, sa, sb, kind, tuple(sorted(set(out)))
E = Engine()
t = time.time()
R = E.explore(harness, max_paths=200000)
print(len(R), 'paths', time.time() - t, 's', E.stats)
from collections import Counter
c = Counter(r[1] for r in R if r[1][-1] not in ((),) and r[1][0] != 'abort')
for k, v in sorted(c.items(), key=str): print(v, k)
